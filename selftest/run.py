#!/usr/bin/env python3
"""Both-ways test of the checker: apply each planted break of selftest/breaks.py to a scratch copy of
/repo (under /tmp, removed afterwards), run the property's check against the copy and require that
the named rule fires and names the planted instance.

usage: selftest/run.py [--prop Cxx] [--id <break id>] [--jobs N] [--tier quick]
exit 0 = every applicable planted break was detected; 1 = some break was missed.
A break whose `old` text no longer exists in the tree is reported as SKIPPED (the repository moved on),
never as a miss."""
import argparse
import concurrent.futures
import json
import os
import shutil
import subprocess
import sys
import tempfile

HERE = os.path.dirname(os.path.abspath(__file__))
VERIF = os.path.dirname(HERE)
sys.path.insert(0, HERE)
import breaks  # noqa: E402

REPO = os.environ.get("DASHU_REPO", "/repo")


def run_one(b, tier):
    tmp = tempfile.mkdtemp(prefix="dashu-selftest-")
    try:
        dst = os.path.join(tmp, "repo")
        subprocess.check_call(["rsync", "-a", "--exclude", "target", "--exclude", ".git", REPO + "/", dst + "/"])
        for (path, old, new) in b["edits"]:
            fp = os.path.join(dst, path)
            s = open(fp).read()
            if old not in s:
                return (b, "SKIPPED", "anchor text not found in " + path)
            s = s.replace(old, new, 1)
            open(fp, "w").write(s)
        env = dict(os.environ)
        env["DASHU_REPO"] = dst
        env["VERIF_OUT"] = os.path.join(tmp, "out")
        env["VERIF_CACHE"] = os.path.join(tmp, "cache")     # facts of the scratch tree die with it
        p = subprocess.run([os.path.join(VERIF, "check"), b["prop"], "--tier", tier], cwd=VERIF, env=env,
                           stdout=subprocess.PIPE, stderr=subprocess.STDOUT, text=True)
        out = p.stdout
        if "fact extraction failed" in out:
            return (b, "BROKEN-VARIANT", "the variant does not compile: " + out[-400:])
        hits = []
        lines = out.splitlines()
        for i, l in enumerate(lines):
            if l.strip().startswith("[" + b["rule"] + "]"):
                ctx = " ".join(lines[i:i + 3])
                if b["expect"] in ctx:
                    hits.append(l.strip()[:160])
        if hits and p.returncode == 1:
            return (b, "DETECTED", hits[0])
        return (b, "MISSED", "exit %d; no `[%s]` report mentioning `%s`; tail: %s" % (p.returncode, b["rule"], b["expect"], " | ".join(lines[-4:])[:300]))
    finally:
        shutil.rmtree(tmp, ignore_errors=True)
        # drop the fact cache entry of the scratch tree
        cache = os.path.join(VERIF, ".cache")


def main():
    ap = argparse.ArgumentParser()
    ap.add_argument("--prop")
    ap.add_argument("--id")
    ap.add_argument("--jobs", type=int, default=4)
    ap.add_argument("--tier", default="quick")
    ap.add_argument("--json")
    a = ap.parse_args()
    todo = [b for b in breaks.B if (not a.prop or b["prop"] == a.prop) and (not a.id or b["id"] == a.id)]
    results = []
    with concurrent.futures.ThreadPoolExecutor(max_workers=a.jobs) as ex:
        for b, status, info in ex.map(lambda b: run_one(b, a.tier), todo):
            print("%-14s %-24s %-6s %-7s %s" % (status, b["id"], b["prop"], b["rule"], info[:150]))
            sys.stdout.flush()
            results.append(dict(id=b["id"], prop=b["prop"], rule=b["rule"], status=status, info=info))
    if a.json:
        json.dump(results, open(a.json, "w"), indent=1)
    missed = [r for r in results if r["status"] in ("MISSED", "BROKEN-VARIANT")]
    print("%d planted breaks: %d detected, %d skipped, %d missed/broken" % (
        len(results), sum(r["status"] == "DETECTED" for r in results), sum(r["status"] == "SKIPPED" for r in results), len(missed)))
    return 1 if missed else 0


if __name__ == "__main__":
    sys.exit(main())
