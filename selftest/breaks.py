"""Planted breaks used to test the checker both ways (thorough tier / `./check --selftest`).

Each entry edits a scratch copy of /repo (never /repo itself); the variant must still type-check;
the named rule must fire and its report must contain `expect`.  Whether the repository's own tests
would notice the edit is irrelevant here: these variants test the *checker*.
Fields: id, prop, rule, expect (substring of the violation key/message), edits [(file, old, new)],
optional tier config hint."""

B = []


def add(id, prop, rule, expect, edits):
    B.append(dict(id=id, prop=prop, rule=rule, expect=expect, edits=edits))


# ---- C17 / C05 -----------------------------------------------------------------------------------
add("r17_2_ones", "C17", "R17.2", "Repr::ones",
    [("integer/src/repr.rs", "            Self::from_buffer(buffer)\n        }\n    }\n\n    /// Flip the sign bit",
      "            unsafe { mem::transmute(buffer) }\n        }\n    }\n\n    /// Flip the sign bit")])
add("r17_2_union_arm", "C17", "R17.2", "as_sign_slice",
    [("integer/src/repr.rs", "                2 => &self.data.inline,\n                _ => slice::from_raw_parts(self.data.heap.0, self.data.heap.1),",
      "                2 => slice::from_raw_parts(self.data.heap.0, self.data.heap.1),\n                _ => slice::from_raw_parts(self.data.heap.0, self.data.heap.1),")])
add("r17_3_writer", "C17", "R17.3", "Buffer.len",
    [("integer/src/buffer.rs", "    #[inline]\n    pub fn truncate(&mut self, len: usize) {",
      "    #[inline]\n    pub fn set_len_unchecked(&mut self, len: usize) {\n        self.len = len;\n    }\n\n    #[inline]\n    pub fn truncate(&mut self, len: usize) {")])
add("r17_5_push_le", "C17", "R17.5", "Buffer::push|",
    [("integer/src/buffer.rs", "        assert!(self.len < self.capacity);\n\n        // SAFETY: self.len was checked",
      "        assert!(self.len <= self.capacity);\n\n        // SAFETY: self.len was checked")])
add("r17_5_debug_only", "C17", "R17.5", "push_slice",
    [("integer/src/buffer.rs", "        assert!(src_len <= self.capacity - self.len);", "        debug_assert!(src_len <= self.capacity - self.len);")])
add("r17_7_unsigned_abs", "C17", "R17.7", "unsigned_abs",
    [("integer/src/sign.rs", "    fn unsigned_abs(self) -> UBig {\n        UBig(self.0.with_sign(Sign::Positive))\n    }",
      "    fn unsigned_abs(self) -> UBig {\n        UBig(self.0)\n    }")])
add("r17_7_zero_neg", "C17", "R17.7", "Repr::neg",
    [("integer/src/repr.rs", "    pub const fn neg(mut self) -> Self {\n        if !self.is_zero() {",
      "    pub const fn neg(mut self) -> Self {\n        if true {")])
add("r17_8_safe_static", "C17", "R17.8", "from_static_words",
    [("integer/src/ubig.rs", "    pub const unsafe fn from_static_words(words: &'static [crate::Word]) -> Self {\n        Self(Repr::from_static_words(words))",
      "    pub const fn from_static_words(words: &'static [crate::Word]) -> Self {\n        Self(unsafe { Repr::from_static_words(words) })")])
add("r17_9_some_unguarded", "C17", "R17.9", "try_find_memory_for_slice",
    [("integer/src/memory.rs", "        if slice_end <= end {\n            Some((slice_start as *mut T, slice_end as *mut u8))\n        } else {\n            None\n        }",
      "        let _ = end;\n        Some((slice_start as *mut T, slice_end as *mut u8))")])
add("r05_1_pop_zeros", "C05", "R05.1", "pop_zeros",
    [("integer/src/repr.rs", "    pub fn from_buffer(mut buffer: Buffer) -> Self {\n        buffer.pop_zeros();\n", "    pub fn from_buffer(mut buffer: Buffer) -> Self {\n")])
add("r05_2_hash", "C05", "R05.2", "eq and hash",
    [("integer/src/repr.rs", "        let (sign, arr) = self.as_sign_slice();\n        sign.hash(state);\n        (*arr).hash(state);",
      "        let (sign, arr) = self.as_sign_slice();\n        sign.hash(state);\n        self.capacity.hash(state);\n        (*arr).hash(state);")])
add("r05_4b_shl", "C05", "R05.4b", "Shl<isize>",
    [("float/src/shift.rs", "    fn shl(mut self, rhs: isize) -> Self::Output {\n        assert_finite(&self.repr);\n        if !self.repr.is_zero() {\n            self.repr.exponent += rhs;\n        }\n        self",
      "    fn shl(mut self, rhs: isize) -> Self::Output {\n        assert_finite(&self.repr);\n        self.repr.exponent += rhs;\n        self")])
add("r05_4a_literal", "C05", "R05.4a", "float Repr literal",
    [("float/src/mul.rs", "        let repr = Repr::new(\n            &lhs_repr.significand * &rhs_repr.significand,\n            lhs_repr.exponent + rhs_repr.exponent,\n        );",
      "        let repr = Repr {\n            significand: &lhs_repr.significand * &rhs_repr.significand,\n            exponent: lhs_repr.exponent + rhs_repr.exponent,\n        };")])
# ---- C04 ------------------------------------------------------------------------------------------
add("r04_1_drop_reduce", "C04", "R04.1", "Add for dashu_ratio::rbig::RBig",
    [("rational/src/add.rs", "                denominator: $b * ddg,\n            }\n            .reduce_with_hint(g_bd)\n        };\n\n        RBig(repr)",
      "                denominator: $b * ddg,\n            }\n        };\n        let _unused_g = g_bd;\n\n        RBig(repr)")])
add("r04_2_from_parts", "C04", "R04.3", "RBig::from_parts",
    [("rational/src/rbig.rs", "    pub fn from_parts(numerator: IBig, denominator: UBig) -> Self {\n        if denominator.is_zero() {\n            panic_divide_by_0()\n        }\n",
      "    pub fn from_parts(numerator: IBig, denominator: UBig) -> Self {\n")])
add("r04_4_swap", "C04", "R04.4", "Sub",
    [("rational/src/add.rs", "        Relaxed::from_parts(($a * $rd).$method($c * $rb), $b * $d)", "        Relaxed::from_parts(($c * $rb).$method($a * $rd), $b * $d)")])
# ---- C13 ------------------------------------------------------------------------------------------
add("r13_1_drop_check", "C13", "R13.1", "mul_assign",
    [("integer/src/modular/mul.rs", "                Reduced::check_same_ring_double(ring, ring1);\n", "")])
add("r13_2_div_none", "C13", "R13.2", "None=>panic",
    [("integer/src/modular/div.rs", "            None => panic_divide_by_invalid_modulo(),\n            Some(inv_rhs) => self * inv_rhs,",
      "            None => self.clone(),\n            Some(inv_rhs) => self * inv_rhs,")])
# ---- C15 ------------------------------------------------------------------------------------------
add("r15_2_shr_assign", "C15", "R15.2", "ShrAssign",
    [("float/src/shift.rs", "        if !self.repr.is_zero() {\n            self.repr.exponent -= rhs;\n        }\n    }\n}",
      "        if !self.repr.is_zero() {\n            self.repr.exponent -= rhs;\n        }\n        self.repr.exponent -= rhs;\n    }\n}")])
add("r15_3_swap", "C15", "R15.3", "operand order",
    [("integer/src/helper_macros.rs", "            fn $method(self, rhs: $t) -> $omethod {\n                <$t>::from(self).$method(rhs).try_into().unwrap()\n            }\n        }\n\n        impl<'l> $trait<$t> for &'l $target {\n            type Output = $omethod;\n            #[inline]\n            fn $method(self, rhs: $t) -> $omethod {\n                <$t>::from(*self).$method(rhs).try_into().unwrap()",
      "            fn $method(self, rhs: $t) -> $omethod {\n                <$t>::from(self).$method(rhs).try_into().unwrap()\n            }\n        }\n\n        impl<'l> $trait<$t> for &'l $target {\n            type Output = $omethod;\n            #[inline]\n            fn $method(self, rhs: $t) -> $omethod {\n                rhs.$method(<$t>::from(*self)).try_into().unwrap()")])
# ---- C16 ------------------------------------------------------------------------------------------
add("r16_1a_shl", "C16", "R16.1a", "shl",
    [("float/src/shift.rs", "    fn shl(mut self, rhs: isize) -> Self::Output {\n        assert_finite(&self.repr);\n", "    fn shl(mut self, rhs: isize) -> Self::Output {\n")])
add("r16_1b_sqrt", "C16", "R16.1b", "sqrt",
    [("float/src/root.rs", "        assert_finite(x);\n        assert_limited_precision(self.precision);\n        if x.sign() == Sign::Negative {", "        assert_finite(x);\n        if x.sign() == Sign::Negative {")])
add("r16_1d_ln", "C16", "R16.1d", "ln_internal",
    [("float/src/log.rs", "        if out_of_domain {\n            panic_log_nonpositive()\n        }\n", "        let _ = out_of_domain;\n")])
add("r16_2_parser_index", "C16", "R16.2", "from_str_native",
    [("float/src/parse.rs", "            let value = match src[pos + 1..].parse::<isize>() {", "            let value = match src[pos + 2..].parse::<isize>() {")])
add("r16_2_parser_overflow", "C16", "R16.2", "overflow:parsed",
    [("float/src/parse.rs", "                exponent = match exponent.checked_sub(fract_digits as isize) {\n                    Some(e) => e,\n                    // the scale is too close to isize::MIN to account for the fractional digits\n                    None => return Err(ParseError::InvalidDigit),\n                };",
      "                exponent -= fract_digits as isize;")])
add("r16_4_loop", "C16", "R16.4", "iacoth",
    [("float/src/log.rs", "            if increase < sum.sub_ulp() {\n                return sum;\n            }", "            if increase < sum.sub_ulp() {\n                panic!(\"converged\");\n            }")])
# ---- C03 / C10 / C18 ------------------------------------------------------------------------------
add("r03_1_halfeven", "C03", "R03.1", "HalfEven",
    [("float/src/round.rs", "                // if integer is odd, +1 if rem > 0, -1 if rem < 0\n                if integer.bit(0) {", "                // if integer is odd, +1 if rem > 0, -1 if rem < 0\n                if !integer.bit(0) {")])
add("r03_1_down", "C03", "R03.1", "Down",
    [("float/src/round.rs", "        // -1 if fract < 0, otherwise 0\n        if low_sign == Sign::Negative {", "        // -1 if fract < 0, otherwise 0\n        if low_sign == Sign::Positive {")])
add("r03_2_reverse", "C03", "R03.2", "Reverse(Zero)",
    [("float/src/round.rs", "impl Round for mode::Zero {\n    type Reverse = mode::Away;", "impl Round for mode::Zero {\n    type Reverse = mode::Up;")])
add("r03_3_negate", "C03", "R03.3", "sub",
    [("float/src/add.rs", "            self.repr_round(-rhs.clone())", "            self.repr_round_ref(rhs).map(|v| -v)")])
add("r03_4_exact", "C03", "R03.4", "repr_div",
    [("float/src/div.rs", "        if r.is_zero() {\n            return Approximation::Exact(Repr::new(q, e));\n        }", "        if !r.is_zero() {\n            return Approximation::Exact(Repr::new(q, e));\n        }")])
add("r10_1_ratio_sign", "C10", "R10.1", "round_ratio",
    [("float/src/round.rs", "        Self::round_low_part::<_>(integer, nsign * den.sign(), || {", "        Self::round_low_part::<_>(integer, nsign, || {")])
add("r10_2_floor_mode", "C10", "R10.2", "floor",
    [("float/src/round_ops.rs", "        let rounding = mode::Down::round_fract::<B>(&hi, lo, precision);", "        let rounding = mode::Zero::round_fract::<B>(&hi, lo, precision);")])
add("r10_3_ratio_ceil", "C10", "R10.3", "ceil",
    [("rational/src/round.rs", "        if r > IBig::ZERO {\n            q += IBig::ONE;\n        }", "        if r >= IBig::ZERO {\n            q += IBig::ONE;\n        }")])
add("r18_1_conj", "C18", "R18.1", "is_simpler_than",
    [("rational/src/simplify.rs", "            .then_with(|| other.sign().cmp(&self.sign()))", "            .then_with(|| self.sign().cmp(&other.sign()))")])
# ---- C01 / C02 ------------------------------------------------------------------------------------
add("r01_2_threshold", "C01", "R01.2", "memory_requirement_up_to",
    [("integer/src/mul/mod.rs", "    if smaller_len <= THRESHOLD_SIMPLE {\n        memory::zero_layout()\n    } else if smaller_len <= THRESHOLD_KARATSUBA {\n        karatsuba::memory_requirement_up_to(smaller_len)",
      "    if smaller_len <= THRESHOLD_SIMPLE {\n        memory::zero_layout()\n    } else if smaller_len <= THRESHOLD_KARATSUBA + 1 {\n        karatsuba::memory_requirement_up_to(smaller_len)")])
add("r01_3_sub_arm", "C01", "R01.3", "sub",
    [("integer/src/add_ops.rs", "            (Positive, Negative) => IBig($mag0.add($mag1)),\n            (Negative, Positive) => IBig($mag0.add($mag1).with_sign(Negative)),\n            (Negative, Negative) => IBig($mag1.sub_signed($mag0)),",
      "            (Positive, Negative) => IBig($mag0.add($mag1).with_sign(Negative)),\n            (Negative, Positive) => IBig($mag0.add($mag1)),\n            (Negative, Negative) => IBig($mag1.sub_signed($mag0)),")])
add("r02_2_div_or", "C02", "R02.2", "memory_requirement_exact",
    [("integer/src/div/mod.rs", "    if rhs_len <= THRESHOLD_SIMPLE || lhs_len - rhs_len <= THRESHOLD_SIMPLE {\n        memory::zero_layout()", "    if rhs_len <= THRESHOLD_SIMPLE + 2 || lhs_len - rhs_len <= THRESHOLD_SIMPLE {\n        memory::zero_layout()")])
add("r02_3_euclid_sign", "C02", "R02.3", "div_euclid",
    [("integer/src/div_ops.rs", "            (Negative, false) => q.into_typed().add_one(),\n        };\n        IBig(q.with_sign($sign0 * $sign1))", "            (Negative, false) => q.into_typed().add_one(),\n        };\n        IBig(q.with_sign($sign1))")])
# ---- C06 / C19 / C20 ------------------------------------------------------------------------------
add("r06_2_shift", "C06", "R06.2", "TryFrom<fN> for UBig",
    [("integer/src/convert.rs", "                let mut result: UBig = man.try_into()?;\n                if exp >= 0 {\n                    result <<= exp as usize;\n                } else {\n                    // the conversion is exact only if no non-zero bit is shifted out\n                    let shift = (-exp) as usize;\n                    if result.trailing_zeros().map_or(false, |zeros| zeros < shift) {\n                        return Err(ConversionError::LossOfPrecision);\n                    }\n                    result >>= shift;\n                }",
      "                let mut result: UBig = man.try_into()?;\n                if exp >= 0 {\n                    result <<= exp as usize;\n                } else {\n                    result >>= (-exp) as usize;\n                }")])
add("r19_2_debug_effect", "C19", "R19.2", "add_large_dword",
    [("integer/src/add_ops.rs", "    fn add_large_dword(mut buffer: Buffer, rhs: DoubleWord) -> Repr {\n        debug_assert!(buffer.len() >= 3);", "    fn add_large_dword(mut buffer: Buffer, rhs: DoubleWord) -> Repr {\n        debug_assert!({ buffer.pop_zeros(); buffer.len() >= 3 });")])
add("r19_4_serialize_words", "C19", "R19.4", "Serialize",
    [("integer/src/third_party/serde.rs", "            let bytes = words_to_le_bytes::<false>(self.as_words());\n            serializer.serialize_bytes(&bytes)\n        }\n    }\n}\n\nimpl<'de> Deserialize<'de> for UBig {",
      "            serializer.collect_seq(self.as_words())\n        }\n    }\n}\n\nimpl<'de> Deserialize<'de> for UBig {")])
add("r19_4_deser_literal", "C19", "R19.4", "visit_seq",
    [("rational/src/third_party/serde.rs", "        } else {\n            repr_from_parts(numerator, denominator)\n        }", "        } else {\n            Ok(Repr {\n                numerator,\n                denominator,\n            })\n        }")])
add("r20_2_drop_error", "C20", "R20.2", "unwrap_or",
    [("macros/src/parse/int.rs", "            UBig::from_str_radix(&val, b)?", "            UBig::from_str_radix(&val, b).unwrap_or_default()")])
add("r20_3_drop_sign", "C20", "R20.3", "sign",
    [("macros/src/parse/int.rs", "            quote! { #ns::IBig::from_parts_const(#sign, #u as _) }", "            quote! { #ns::IBig::from_parts_const(#ns::Sign::Positive, #u as _) }")])
add("r20_4_threshold", "C20", "R20.4", "try_into::<u32>",
    [("macros/src/parse/int.rs", "    if big.bit_len() <= 32 && !static_ {", "    if big.bit_len() <= 33 && !static_ {")])

add("r18_2_halfeven_incl", "C18", "R18.2", "HalfEven",
    [("float/src/round.rs", "        let incl = !f.repr.significand.bit(0) || (B % 2 == 0 && f.repr.digits() < f.precision());", "        let incl = f.repr.significand.bit(0);")])

add("r13_4_one_mod1", "C13", "R13.4", "ReducedWord::one",
    [("integer/src/modular/repr.rs", "        if one == ring.normalized_divisor() {\n            // the only residue modulo 1 is zero\n            Self(0)\n        } else {\n            Self(one)\n        }", "        Self(one)")])

# ---- bound polarity (R10.4 / R03.6 / R05.3c) --------------------------------------------------------
add("pol_cmp_same_side", "C05", "R05.3c", "repr_cmp",
    [("float/src/cmp.rs", "    if lhs_lo > rhs_hi {\n        return Ordering::Greater;\n    }", "    if lhs_lo > rhs_lo {\n        return Ordering::Greater;\n    }")])
add("pol_neg_exponent", "C10", "R10.4", "log2_bounds",
    [("float/src/log.rs", "            (logs_lb + e * logb_ub, logs_ub + e * logb_lb)", "            (logs_lb + e * logb_lb, logs_ub + e * logb_ub)")])
add("pol_digits_ub", "C03", "R03.6", "digits_ub",
    [("float/src/repr.rs", "            _ => self.significand.log2_bounds().1 / Self::BASE.log2_bounds().0,", "            _ => self.significand.log2_bounds().1 / Self::BASE.log2_bounds().1,")])
add("pol_half_test", "C10", "R10.4", "round_fract",
    [("float/src/round.rs", "            if lb + 0.999 > b_ub * precision as f32 {", "            if ub + 0.999 > b_ub * precision as f32 {")])

add("r03_7_signed_rem", "C03", "R03.7", "sqrt",
    [("float/src/root.rs", "        let shift = self.precision as isize * 2 - (digits & 1) + (x.exponent & 1) - digits;", "        let shift = self.precision as isize * 2 - (digits & 1) + (x.exponent % 2) - digits;")])

add("r15_6_sign_on_lhs", "C15", "R15.6", "repr_add_large_small",
    [("float/src/add.rs", "            (lhs.significand + rhs_sign * rhs_signif, lhs.exponent)\n", "            (rhs_sign * lhs.significand + rhs_signif, lhs.exponent)\n")])
add("r20_7_debug_only_check", "C20", "R20.7", "parse_ratio_with_error",
    [("macros/src/parse/ratio.rs", "    let num_val = num_val.ok_or(ParseError::NoDigits)?;\n", "    debug_assert!(!(den_marked && den_val.is_none()));\n    let num_val = num_val.ok_or(ParseError::NoDigits)?;\n")])
add("r17_5_copy_count", "C17", "R17.5", "clone_from_slice",
    [("integer/src/buffer.rs", "                ptr::copy_nonoverlapping(src.as_ptr(), self.ptr.as_ptr(), src.len());", "                ptr::copy_nonoverlapping(src.as_ptr(), self.ptr.as_ptr(), self.capacity);")])

add("r15_4b_ring_not_copied", "C13", "R15.4b", "Large.1",
    [("integer/src/modular/repr.rs", "            *ring = src_ring;\n", "            let _ = (ring, src_ring);\n")])

add("r17_7_stale_sign", "C05", "R17.7", "clone_from",
    [("integer/src/repr.rs", "        let (cap, _) = self.sign_capacity();\n", "        let (cap, sign) = self.sign_capacity();\n"),
     ("integer/src/repr.rs", "            if (src_sign == Sign::Positive) ^ (self.capacity.get() > 0) {", "            if src_sign != sign {")])

add("half_wrong_divisor", "C10", "R10.5", "repr_div",
    [("float/src/div.rs", "            let adjust = R::round_ratio(&q, r, &rhs.significand);", "            let adjust = R::round_ratio(&q, r, &q);")])
add("half_unshifted_den", "C06", "R06.5", "to_f32",
    [("rational/src/convert.rs", "                let half = (r << 1).cmp(&den);", "                let half = (r << 1).cmp(&self.denominator);")])

add("r02_5_2by1_precondition", "C02", "R02.5", "rem_dword",
    [("integer/src/div_const.rs", "            let hi = if hi >= d { hi - d } else { hi };\n", "            let _ = d;\n")])

add("r18_3_zero_endpoint", "C18", "R18.3", "zero return",
    [("rational/src/simplify.rs", "            (true, false) => upper.numerator.sign(),\n", "            (true, false) => return Self::zero(),\n")])

add("r10_6_unlimited_source", "C10", "R10.6", "unrounded",
    [("float/src/convert.rs", "        let repr = if self.context.precision > precision\n            || (!self.context.is_limited() && !self.repr.is_infinite())\n        {", "        let repr = if self.context.precision > precision {")])

# ---- rules added after wave 3 --------------------------------------------------------------------
add("r15_7_ctx_same_operand", "C15", "R15.7", "Context::max",
    [("float/src/mul.rs", "Context::max(self.context, rhs.context)", "Context::max(rhs.context, rhs.context)")])
add("r15_1b_repr_form_kernel", "C15", "R15.1b", "AndNot",
    [("integer/src/bits.rs", "(RefLarge(buffer0), RefLarge(buffer1)) => and_not_large(buffer0.into(), buffer1),",
      "(RefLarge(buffer0), RefLarge(buffer1)) => bitxor_large(buffer0.into(), buffer1),")])
add("r04_4b_relaxed_cubic", "C04", "R04.4b", "cubic",
    [("rational/src/mul.rs", "    /// See [RBig::cubic] for details.\n    #[inline]\n    pub fn cubic(&self) -> Self {\n        Self(self.0.cubic())", "    /// See [RBig::cubic] for details.\n    #[inline]\n    pub fn cubic(&self) -> Self {\n        Self(self.0.sqr())")])
add("r04_5_inv_sign", "C04", "R04.5", "Repr::inv",
    [("rational/src/div.rs", "        let (sign, num) = self.numerator.into_parts();\n        Repr {\n            numerator: IBig::from_parts(sign, self.denominator),\n            denominator: num,\n        }", "        Repr {\n            numerator: self.denominator.into(),\n            denominator: self.numerator.unsigned_abs(),\n        }")])
add("r06_7_f32_threshold", "C06", "R06.7", "into_f32_internal",
    [("float/src/convert.rs", "        if self.exponent >= 128 {", "        if self.exponent >= 127 {")])
add("r01_4_two_appends", "C01", "R01.4", "pow_dword_base",
    [("integer/src/pow.rs", "                    res.push(c0);\n                    res.push_resizing(c1);", "                    res.push_resizing(c0);\n                    res.push_resizing(c1);")])
add("r16_5_no_shortcut", "C16", "R16.5", "trunc",
    [("float/src/round_ops.rs", "        } else if self.repr.smaller_than_one() {\n            return Self::ZERO;\n        }\n\n        let shift", "        }\n\n        let shift")])
add("r13_5_twin_accessor", "C13", "R13.5", "reduce_once",
    [("integer/src/modular/reducer.rs", "                ConstDivisorRepr::Double(d) => target - d.normalized_divisor(),", "                ConstDivisorRepr::Double(d) => target - d.divisor(),")])
add("r20_2_swallowed_radix", "C20", "R20.2", "parse_integer_with_error",
    [("macros/src/parse/int.rs", "            let b = b.parse::<u32>().or(Err(ParseError::UnsupportedRadix))?;", "            let b = b.parse::<u32>().unwrap_or(10);")])
add("r18_4_estimate_in_ulp", "C18", "R18.4", "ulp",
    [("float/src/fbig.rs", "            exponent: self.repr.exponent + self.repr.digits() as isize", "            exponent: self.repr.exponent + self.repr.digits_ub() as isize")])
add("r06_4_sticky_plus", "C06", "R06.4", "to_f32_nontrivial",
    [("integer/src/convert.rs", "                f32::encode((top_u31 | extra_bit) as i32, (n - 31) as i16)", "                f32::encode((top_u31 + extra_bit) as i32, (n - 31) as i16)")])

add("r10_7_tiny_value_digits", "C10", "R10.7", "to_int",
    [("float/src/convert.rs", "        if self.repr.smaller_than_one() {\n            // |self| < 1 / B^2 <= 1/4: count one digit more", "        if false && self.repr.smaller_than_one() {\n            // |self| < 1 / B^2 <= 1/4: count one digit more")])

# ---- rules added after wave 4 --------------------------------------------------------------------
add("r01_5_swap_without_neg", "C01", "R01.5", "sub_signed",
    [("integer/src/add_ops.rs", "                (RefLarge(words0), Large(buffer1)) => sub_large(buffer1, words0).neg(),", "                (RefLarge(words0), Large(buffer1)) => sub_large(buffer1, words0),")])
add("r17_5_read_before_len_check", "C17", "R17.5", "pop_zeros",
    [("integer/src/buffer.rs", "                while ptr::read(tail_ptr) == 0 {\n                    self.len -= 1;\n                    if self.len == 0 {\n                        break;\n                    }\n                    tail_ptr = tail_ptr.sub(1);", "                while ptr::read(tail_ptr) == 0 && self.len > 0 {\n                    self.len -= 1;\n                    tail_ptr = tail_ptr.wrapping_sub(1);")])
add("r17_8_realloc_new_layout", "C17", "R17.8", "reallocate_raw",
    [("integer/src/buffer.rs", "                alloc::alloc::realloc(self.ptr.as_ptr() as _, old_layout, new_layout.size());", "                alloc::alloc::realloc(self.ptr.as_ptr() as _, new_layout, new_layout.size());\n            let _ = old_layout;")])
add("r19_6_pointer_width", "C19", "R19.6", "WORD_BITS",
    [("float/src/utils.rs", "    let n_words = shift / Word::BITS as usize;", "    const WORD_BITS: usize = usize::BITS as usize;\n    let n_words = shift / WORD_BITS;")])
add("r20_4_host_sized_const", "C20", "R20.4", "u64",
    [("macros/src/parse/int.rs", "    if big.bit_len() <= 32 && !static_ {\n        let u: u32 = big.try_into().unwrap();", "    if big.bit_len() <= 64 && !static_ {\n        let u: u64 = big.try_into().unwrap();")])

add("r02_6_option_ordering", "C02", "R02.6", "is_multiple_of",
    [("integer/src/div_ops.rs", "    pub fn is_multiple_of(&self, divisor: &Self) -> bool {\n        (self % divisor).is_zero()",
      "    pub fn is_multiple_of(&self, divisor: &Self) -> bool {\n        if self.trailing_zeros() < divisor.trailing_zeros() {\n            return false;\n        }\n        (self % divisor).is_zero()")])

add("r01_6_flag_dropped", "C19", "R01.6", "add_with_carry",
    [("integer/src/arch/generic/add.rs", "    (sum, c0 | c1)\n", "    let _ = c1;\n    (sum, c0)\n")])

add("r10_8_cmp_unscaled_shift", "C06", "R10.8", "repr_cmp_fbig",
    [("rational/src/cmp.rs", "                lhs <<= exp * B.trailing_zeros() as usize;", "                lhs <<= exp;")])
add("r10_8_split_digits_unscaled", "C10", "R10.8", "split_digits",
    [("float/src/utils.rs", "            i if i.is_power_of_two() => split_bits(value, pos * i.trailing_zeros() as usize),", "            i if i.is_power_of_two() => split_bits(value, pos),")])

add("r13_6_strict_reduction", "C13", "R13.6", "add_in_place",
    [("integer/src/modular/add.rs", "    if overflow || cmp::cmp_same_len(&lhs.0, modulus).is_ge() {", "    if overflow || cmp::cmp_same_len(&lhs.0, modulus).is_gt() {")])
add("r13_7_unreduced_square", "C13", "R13.7", "sqr_normalized",
    [("integer/src/modular/mul.rs", "        if cmp::cmp_same_len(product, modulus).is_ge() {\n            debug_assert_zero!(add::sub_same_len_in_place(product, modulus));\n        }\n        product\n    }\n}\n\n/// raw = raw^2",
      "        product\n    }\n}\n\n/// raw = raw^2")])

add("r06_9_numerator_is_one", "C06", "R06.9", "UBig>::try_from",
    [("rational/src/convert.rs", "        } else if value.denominator.is_one() {\n            Ok(mag)", "        } else if mag.is_one() {\n            Ok(mag)")])

add("r18_5_subnormal_to_zero", "C18", "R18.5", "simplest_from_f",
    [("rational/src/simplify.rs", "        } else if $f == 0. {\n            return Some(Self::ZERO);", "        } else if !$f.is_normal() {\n            return Some(Self::ZERO);")])

