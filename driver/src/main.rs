// dashu-facts: rustc_private driver that exports a fact base (items, impl table, MIR with resolved
// callees, HIR unsafe blocks, constants) of every dashu workspace crate it compiles.
//
// It is used as RUSTC_WORKSPACE_WRAPPER under `cargo +nightly check`; cargo calls
//     dashu-facts <path-to-rustc> <rustc args...>
// and the driver behaves exactly like rustc, plus one fact file per compiled workspace crate
// (written to $DASHU_FACTS_OUT/<crate>-<pid>.json, one write per process).
#![feature(rustc_private)]
#![allow(clippy::all)]

extern crate rustc_abi;
extern crate rustc_data_structures;
extern crate rustc_driver;
extern crate rustc_hir;
extern crate rustc_index;
extern crate rustc_interface;
extern crate rustc_middle;
extern crate rustc_session;
extern crate rustc_span;

use rustc_driver::Compilation;
use rustc_hir::def::DefKind;
use rustc_hir::def_id::{DefId, LocalDefId, LOCAL_CRATE};
use rustc_hir::intravisit::{self, Visitor};
use rustc_interface::interface::Compiler;
use rustc_middle::mir::{
    self, AggregateKind, AssertKind, BasicBlockData, Body, CastKind, Const as MirConst, Operand,
    Place, ProjectionElem, Rvalue, StatementKind, TerminatorKind,
};
use rustc_middle::ty::print::{with_no_trimmed_paths as nt_, with_no_visible_paths, with_resolve_crate_name};
macro_rules! with_no_trimmed_paths { ($e:expr) => { nt_!(with_no_visible_paths!(with_resolve_crate_name!($e))) }; }
use rustc_middle::ty::print::PrintTraitRefExt;
use rustc_middle::ty::{self, Ty, TyCtxt, TypeVisitableExt};
use rustc_span::Span;
use std::collections::HashMap;
use std::fmt::Write as _;

const WORKSPACE: &[&str] =
    &["dashu_base", "dashu_int", "dashu_float", "dashu_ratio", "dashu_macros", "dashu"];

// ------------------------------------------------------------------------------------------------
// tiny JSON writer with a string-intern table
// ------------------------------------------------------------------------------------------------

fn esc(s: &str, out: &mut String) {
    out.push('"');
    for c in s.chars() {
        match c {
            '"' => out.push_str("\\\""),
            '\\' => out.push_str("\\\\"),
            '\n' => out.push_str("\\n"),
            '\r' => out.push_str("\\r"),
            '\t' => out.push_str("\\t"),
            c if (c as u32) < 0x20 => {
                let _ = write!(out, "\\u{:04x}", c as u32);
            }
            c => out.push(c),
        }
    }
    out.push('"');
}

#[derive(Default)]
struct Interner {
    map: HashMap<String, usize>,
    list: Vec<String>,
}
impl Interner {
    fn id(&mut self, s: &str) -> usize {
        if let Some(&i) = self.map.get(s) {
            return i;
        }
        let i = self.list.len();
        self.list.push(s.to_string());
        self.map.insert(s.to_string(), i);
        i
    }
}

struct Cx<'tcx> {
    tcx: TyCtxt<'tcx>,
    strs: Interner,
    krate: String,
}

impl<'tcx> Cx<'tcx> {
    fn s(&mut self, s: &str) -> String {
        format!("{}", self.strs.id(s))
    }
    fn ty(&mut self, t: Ty<'tcx>) -> String {
        let s = with_no_trimmed_paths!(format!("{}", t));
        self.s(&s)
    }
    /// stable-ish identity of a definition: "<crate>::<def path>"
    fn dp(&self, did: DefId) -> String {
        let cn = self.tcx.crate_name(did.krate);
        format!("{}{}", cn, self.tcx.def_path(did).to_string_no_crate_verbose())
    }
    fn path(&self, did: DefId) -> String {
        with_no_trimmed_paths!(self.tcx.def_path_str(did))
    }
    fn loc(&self, sp: Span) -> String {
        let sm = self.tcx.sess.source_map();
        if sp.is_dummy() {
            return "?".to_string();
        }
        let lo = sm.lookup_char_pos(sp.lo());
        let hi = sm.lookup_char_pos(sp.hi());
        let f = match &lo.file.name {
            rustc_span::FileName::Real(r) => match r.local_path() {
                Some(p) => p.display().to_string(),
                None => format!("{:?}", lo.file.name),
            },
            other => format!("{:?}", other),
        };
        format!("{}:{}:{}:{}:{}", f, lo.line, lo.col.0 + 1, hi.line, hi.col.0 + 1)
    }
    /// span string: "loc|mac1@callsite1|mac2@callsite2..." (innermost expansion first)
    fn span(&mut self, sp: Span) -> String {
        let mut s = self.loc(sp);
        for ed in sp.macro_backtrace() {
            let name = match ed.kind {
                rustc_span::ExpnKind::Macro(_, sym) => sym.to_string(),
                rustc_span::ExpnKind::Desugaring(d) => format!("desugar:{:?}", d),
                rustc_span::ExpnKind::AstPass(p) => format!("astpass:{:?}", p),
                rustc_span::ExpnKind::Root => "root".to_string(),
            };
            let cs = self.loc(ed.call_site);
            s.push('|');
            s.push_str(&name);
            s.push('@');
            s.push_str(&cs);
        }
        self.s(&s)
    }

    fn fn_ref(&mut self, did: DefId, args: ty::GenericArgsRef<'tcx>, caller: DefId) -> String {
        let tcx = self.tcx;
        let mut o = String::new();
        let dp = self.dp(did);
        let path = self.path(did);
        let _ = write!(o, "{{\"d\":{},\"p\":{}", self.s(&dp), self.s(&path));
        // generic args
        o.push_str(",\"g\":[");
        let mut first = true;
        for a in args.iter() {
            let s = with_no_trimmed_paths!(format!("{}", a));
            if !first {
                o.push(',');
            }
            first = false;
            o.push_str(&self.s(&s));
        }
        o.push(']');
        let dk = tcx.def_kind(did);
        if matches!(dk, DefKind::Fn | DefKind::AssocFn) {
            let sig = tcx.fn_sig(did).skip_binder();
            if !sig.safety().is_safe() {
                o.push_str(",\"unsafe\":1");
            }
            // diverging?
            let out = sig.output().skip_binder();
            if out.is_never() {
                o.push_str(",\"never\":1");
            }
            if let Some(tr) = tcx.trait_of_assoc(did) {
                let tp = self.path(tr);
                let _ = write!(o, ",\"tr\":{}", self.s(&tp));
            }
            // resolve
            let env = ty::TypingEnv::post_analysis(tcx, caller);
            let has_escaping = args.iter().any(|a| a.has_escaping_bound_vars());
            if !has_escaping {
                let r = std::panic::catch_unwind(std::panic::AssertUnwindSafe(|| {
                    ty::Instance::try_resolve(tcx, env, did, args)
                }));
                if let Ok(Ok(Some(inst))) = r {
                    let rd = inst.def_id();
                    let kind = match inst.def {
                        ty::InstanceKind::Item(_) => "item",
                        ty::InstanceKind::Intrinsic(_) => "intrinsic",
                        ty::InstanceKind::Virtual(..) => "virtual",
                        ty::InstanceKind::FnPtrShim(..) => "fnptrshim",
                        ty::InstanceKind::ClosureOnceShim { .. } => "closureonce",
                        ty::InstanceKind::DropGlue(..) => "dropglue",
                        ty::InstanceKind::CloneShim(..) => "cloneshim",
                        _ => "other",
                    };
                    let rdp = self.dp(rd);
                    let rp = self.path(rd);
                    let _ = write!(
                        o,
                        ",\"r\":{},\"rp\":{},\"rk\":\"{}\"",
                        self.s(&rdp),
                        self.s(&rp),
                        kind
                    );
                    o.push_str(",\"rg\":[");
                    let mut first = true;
                    for a in inst.args.iter() {
                        let s = with_no_trimmed_paths!(format!("{}", a));
                        if !first {
                            o.push(',');
                        }
                        first = false;
                        o.push_str(&self.s(&s));
                    }
                    o.push(']');
                }
            }
        }
        o.push('}');
        o
    }

    fn constant(&mut self, c: &mir::ConstOperand<'tcx>, body_owner: DefId) -> String {
        let tcx = self.tcx;
        let ty = c.const_.ty();
        let mut o = String::new();
        let _ = write!(o, "{{\"ty\":{}", self.ty(ty));
        match ty.kind() {
            ty::FnDef(did, args) => {
                let fr = self.fn_ref(*did, args, body_owner);
                let _ = write!(o, ",\"fn\":{}", fr);
            }
            _ => {}
        }
        match c.const_ {
            MirConst::Unevaluated(uv, _) => {
                let dp = self.dp(uv.def);
                let p = self.path(uv.def);
                let _ = write!(o, ",\"uv\":{},\"uvp\":{}", self.s(&dp), self.s(&p));
                if let Some(pr) = uv.promoted {
                    let _ = write!(o, ",\"promoted\":{}", pr.as_usize());
                }
            }
            MirConst::Ty(_, ct) => {
                if let ty::ConstKind::Param(p) = ct.kind() {
                    let _ = write!(o, ",\"param\":{}", self.s(&p.name.to_string()));
                }
            }
            MirConst::Val(..) => {}
        }
        // scalar value
        if ty.is_integral() || ty.is_bool() || ty.is_char() {
            let env = ty::TypingEnv::post_analysis(tcx, body_owner);
            let r = std::panic::catch_unwind(std::panic::AssertUnwindSafe(|| {
                c.const_.try_eval_scalar_int(tcx, env)
            }));
            if let Ok(Some(si)) = r {
                let sz = si.size();
                let bits = si.to_bits(sz);
                let _ = write!(o, ",\"v\":\"{}\",\"sz\":{}", bits, sz.bytes());
            }
        }
        let disp = with_no_trimmed_paths!(format!("{}", c.const_));
        let disp = if disp.len() > 200 { disp[..200].to_string() } else { disp };
        let _ = write!(o, ",\"s\":{}", self.s(&disp));
        o.push('}');
        o
    }

    fn place(&mut self, p: &Place<'tcx>, body: &Body<'tcx>) -> String {
        let tcx = self.tcx;
        let mut o = String::new();
        let _ = write!(o, "{{\"l\":{}", p.local.as_usize());
        if !p.projection.is_empty() {
            o.push_str(",\"p\":[");
            let mut pty = mir::PlaceTy::from_ty(body.local_decls[p.local].ty);
            for (i, elem) in p.projection.iter().enumerate() {
                if i > 0 {
                    o.push(',');
                }
                match elem {
                    ProjectionElem::Deref => {
                        let raw = pty.ty.is_raw_ptr();
                        if raw {
                            o.push_str("{\"k\":\"deref\",\"raw\":1}");
                        } else {
                            o.push_str("{\"k\":\"deref\"}");
                        }
                    }
                    ProjectionElem::Field(f, fty) => {
                        let mut fname = format!("{}", f.as_usize());
                        let mut of = String::new();
                        let mut is_union = false;
                        if let ty::Adt(adt, _) = pty.ty.kind() {
                            let vidx = pty.variant_index.unwrap_or(rustc_abi::FIRST_VARIANT);
                            if vidx.as_usize() < adt.variants().len() {
                                let v = adt.variant(vidx);
                                if f.as_usize() < v.fields.len() {
                                    fname = v.fields[f].name.to_string();
                                }
                                of = self.dp(adt.did());
                                if adt.is_enum() {
                                    of.push_str("::");
                                    of.push_str(v.name.as_str());
                                }
                                is_union = adt.is_union();
                            }
                        }
                        let _ = write!(
                            o,
                            "{{\"k\":\"f\",\"i\":{},\"n\":{},\"of\":{},\"ty\":{}{}}}",
                            f.as_usize(),
                            self.s(&fname),
                            self.s(&of),
                            self.ty(fty),
                            if is_union { ",\"union\":1" } else { "" }
                        );
                    }
                    ProjectionElem::Index(l) => {
                        let _ = write!(o, "{{\"k\":\"idx\",\"l\":{}}}", l.as_usize());
                    }
                    ProjectionElem::ConstantIndex { offset, min_length, from_end } => {
                        let _ = write!(
                            o,
                            "{{\"k\":\"cidx\",\"off\":{},\"min\":{},\"end\":{}}}",
                            offset, min_length, from_end
                        );
                    }
                    ProjectionElem::Subslice { from, to, from_end } => {
                        let _ = write!(
                            o,
                            "{{\"k\":\"sub\",\"from\":{},\"to\":{},\"end\":{}}}",
                            from, to, from_end
                        );
                    }
                    ProjectionElem::Downcast(name, v) => {
                        let n = name.map(|s| s.to_string()).unwrap_or_default();
                        let _ = write!(
                            o,
                            "{{\"k\":\"dc\",\"v\":{},\"n\":{}}}",
                            v.as_usize(),
                            self.s(&n)
                        );
                    }
                    _ => {
                        o.push_str("{\"k\":\"other\"}");
                    }
                }
                pty = pty.projection_ty(tcx, elem);
            }
            o.push(']');
        }
        o.push('}');
        o
    }

    fn operand(&mut self, op: &Operand<'tcx>, body: &Body<'tcx>, owner: DefId) -> String {
        match op {
            Operand::Copy(p) => format!("{{\"cp\":{}}}", self.place(p, body)),
            Operand::Move(p) => format!("{{\"mv\":{}}}", self.place(p, body)),
            Operand::Constant(c) => format!("{{\"c\":{}}}", self.constant(c, owner)),
            #[allow(unreachable_patterns)]
            _ => "{\"other\":1}".to_string(),
        }
    }

    fn rvalue(&mut self, rv: &Rvalue<'tcx>, body: &Body<'tcx>, owner: DefId) -> String {
        let mut o = String::new();
        match rv {
            Rvalue::Use(op, ..) => {
                let _ = write!(o, "{{\"k\":\"use\",\"a\":{}}}", self.operand(op, body, owner));
            }
            Rvalue::Repeat(op, _) => {
                let _ = write!(o, "{{\"k\":\"repeat\",\"a\":{}}}", self.operand(op, body, owner));
            }
            Rvalue::Ref(_, bk, p) => {
                let m = match bk {
                    mir::BorrowKind::Shared => "shared",
                    mir::BorrowKind::Fake(_) => "fake",
                    mir::BorrowKind::Mut { .. } => "mut",
                };
                let _ = write!(o, "{{\"k\":\"ref\",\"m\":\"{}\",\"p\":{}}}", m, self.place(p, body));
            }
            Rvalue::RawPtr(k, p) => {
                let m = format!("{:?}", k);
                let _ = write!(
                    o,
                    "{{\"k\":\"rawptr\",\"m\":{},\"p\":{}}}",
                    self.s(&m),
                    self.place(p, body)
                );
            }
            Rvalue::Cast(ck, op, ty) => {
                let k = match ck {
                    CastKind::Transmute => "transmute".to_string(),
                    CastKind::IntToInt => "int2int".to_string(),
                    CastKind::PtrToPtr => "ptr2ptr".to_string(),
                    other => format!("{:?}", other),
                };
                let src_ty = op.ty(body, self.tcx);
                let _ = write!(
                    o,
                    "{{\"k\":\"cast\",\"ck\":{},\"a\":{},\"ty\":{},\"from\":{}}}",
                    self.s(&k),
                    self.operand(op, body, owner),
                    self.ty(*ty),
                    self.ty(src_ty)
                );
            }
            Rvalue::BinaryOp(bop, ab) => {
                let (a, b) = &**ab;
                let _ = write!(
                    o,
                    "{{\"k\":\"bin\",\"op\":\"{:?}\",\"a\":{},\"b\":{}}}",
                    bop,
                    self.operand(a, body, owner),
                    self.operand(b, body, owner)
                );
            }
            Rvalue::UnaryOp(uop, a) => {
                let _ = write!(
                    o,
                    "{{\"k\":\"un\",\"op\":\"{:?}\",\"a\":{}}}",
                    uop,
                    self.operand(a, body, owner)
                );
            }
            Rvalue::Discriminant(p) => {
                let _ = write!(o, "{{\"k\":\"discr\",\"p\":{}}}", self.place(p, body));
            }
            Rvalue::CopyForDeref(p) => {
                let _ = write!(o, "{{\"k\":\"use\",\"a\":{{\"cp\":{}}}}}", self.place(p, body));
            }
            Rvalue::Aggregate(ak, ops) => {
                let mut kind = String::new();
                match &**ak {
                    AggregateKind::Array(_) => kind.push_str("\"ak\":\"array\""),
                    AggregateKind::Tuple => kind.push_str("\"ak\":\"tuple\""),
                    AggregateKind::Adt(did, vidx, _args, _, union_field) => {
                        let adt = self.tcx.adt_def(*did);
                        let v = adt.variant(*vidx);
                        let dp = self.dp(*did);
                        let _ = write!(
                            kind,
                            "\"ak\":\"adt\",\"adt\":{},\"v\":{},\"vn\":{}",
                            self.s(&dp),
                            vidx.as_usize(),
                            self.s(v.name.as_str())
                        );
                        if let Some(uf) = union_field {
                            let fname = v.fields[*uf].name.to_string();
                            let _ = write!(kind, ",\"uf\":{}", self.s(&fname));
                        }
                        let names: Vec<String> =
                            v.fields.iter().map(|f| f.name.to_string()).collect();
                        kind.push_str(",\"fn\":[");
                        for (i, n) in names.iter().enumerate() {
                            if i > 0 {
                                kind.push(',');
                            }
                            kind.push_str(&self.s(n));
                        }
                        kind.push(']');
                    }
                    AggregateKind::Closure(did, _) => {
                        let dp = self.dp(*did);
                        let _ = write!(kind, "\"ak\":\"closure\",\"def\":{}", self.s(&dp));
                    }
                    AggregateKind::RawPtr(..) => kind.push_str("\"ak\":\"rawptr\""),
                    _ => kind.push_str("\"ak\":\"other\""),
                }
                let _ = write!(o, "{{\"k\":\"agg\",{},\"ops\":[", kind);
                for (i, op) in ops.iter().enumerate() {
                    if i > 0 {
                        o.push(',');
                    }
                    o.push_str(&self.operand(op, body, owner));
                }
                o.push_str("]}");
            }
            other => {
                let s = format!("{:?}", other);
                let _ = write!(o, "{{\"k\":\"other\",\"s\":{}}}", self.s(&s));
            }
        }
        o
    }

    fn block(&mut self, bb: &BasicBlockData<'tcx>, body: &Body<'tcx>, owner: DefId) -> String {
        let mut o = String::new();
        o.push_str("{\"s\":[");
        let mut first = true;
        for st in &bb.statements {
            let item = match &st.kind {
                StatementKind::Assign(b) => {
                    let (p, rv) = &**b;
                    Some(format!(
                        "{{\"k\":\"as\",\"p\":{},\"rv\":{},\"sp\":{}}}",
                        self.place(p, body),
                        self.rvalue(rv, body, owner),
                        self.span(st.source_info.span)
                    ))
                }
                StatementKind::SetDiscriminant { place, variant_index } => Some(format!(
                    "{{\"k\":\"setdiscr\",\"p\":{},\"v\":{},\"sp\":{}}}",
                    self.place(place, body),
                    variant_index.as_usize(),
                    self.span(st.source_info.span)
                )),
                StatementKind::Intrinsic(i) => {
                    let s = format!("{:?}", i);
                    Some(format!(
                        "{{\"k\":\"intrinsic\",\"s\":{},\"sp\":{}}}",
                        self.s(&s),
                        self.span(st.source_info.span)
                    ))
                }
                _ => None,
            };
            if let Some(it) = item {
                if !first {
                    o.push(',');
                }
                first = false;
                o.push_str(&it);
            }
        }
        o.push_str("],\"t\":");
        let term = bb.terminator();
        let sp = self.span(term.source_info.span);
        match &term.kind {
            TerminatorKind::Goto { target } => {
                let _ = write!(o, "{{\"k\":\"goto\",\"t\":{}}}", target.as_usize());
            }
            TerminatorKind::SwitchInt { discr, targets } => {
                let _ = write!(
                    o,
                    "{{\"k\":\"switch\",\"d\":{},\"sp\":{},\"dty\":{},\"ts\":[",
                    self.operand(discr, body, owner),
                    sp,
                    self.ty(discr.ty(body, self.tcx))
                );
                let mut first = true;
                for (v, t) in targets.iter() {
                    if !first {
                        o.push(',');
                    }
                    first = false;
                    let _ = write!(o, "[\"{}\",{}]", v, t.as_usize());
                }
                let _ = write!(o, "],\"o\":{}}}", targets.otherwise().as_usize());
            }
            TerminatorKind::UnwindResume => o.push_str("{\"k\":\"resume\"}"),
            TerminatorKind::UnwindTerminate(_) => o.push_str("{\"k\":\"abort\"}"),
            TerminatorKind::Return => o.push_str("{\"k\":\"ret\"}"),
            TerminatorKind::Unreachable => {
                let _ = write!(o, "{{\"k\":\"unreachable\",\"sp\":{}}}", sp);
            }
            TerminatorKind::Drop { place, target, unwind, .. } => {
                let uw = match unwind {
                    mir::UnwindAction::Cleanup(b) => format!("{}", b.as_usize()),
                    _ => "null".to_string(),
                };
                let _ = write!(
                    o,
                    "{{\"k\":\"drop\",\"p\":{},\"t\":{},\"uw\":{}}}",
                    self.place(place, body),
                    target.as_usize(),
                    uw
                );
            }
            TerminatorKind::Call { func, args, destination, target, unwind, fn_span, .. } => {
                let uw = match unwind {
                    mir::UnwindAction::Cleanup(b) => format!("{}", b.as_usize()),
                    _ => "null".to_string(),
                };
                let t = match target {
                    Some(b) => format!("{}", b.as_usize()),
                    None => "null".to_string(),
                };
                let _ = write!(
                    o,
                    "{{\"k\":\"call\",\"f\":{},\"a\":[",
                    self.operand(func, body, owner)
                );
                for (i, a) in args.iter().enumerate() {
                    if i > 0 {
                        o.push(',');
                    }
                    o.push_str(&self.operand(&a.node, body, owner));
                }
                let _ = write!(
                    o,
                    "],\"d\":{},\"t\":{},\"uw\":{},\"sp\":{},\"fsp\":{}}}",
                    self.place(destination, body),
                    t,
                    uw,
                    sp,
                    self.span(*fn_span)
                );
            }
            TerminatorKind::TailCall { func, .. } => {
                let _ = write!(
                    o,
                    "{{\"k\":\"tailcall\",\"f\":{},\"sp\":{}}}",
                    self.operand(func, body, owner),
                    sp
                );
            }
            TerminatorKind::Assert { cond, expected, msg, target, unwind } => {
                let uw = match unwind {
                    mir::UnwindAction::Cleanup(b) => format!("{}", b.as_usize()),
                    _ => "null".to_string(),
                };
                let (kind, extra) = match &**msg {
                    AssertKind::BoundsCheck { len, index } => (
                        "bounds".to_string(),
                        format!(
                            ",\"len\":{},\"index\":{}",
                            self.operand(len, body, owner),
                            self.operand(index, body, owner)
                        ),
                    ),
                    AssertKind::Overflow(op, a, b) => (
                        format!("overflow:{:?}", op),
                        format!(
                            ",\"x\":{},\"y\":{}",
                            self.operand(a, body, owner),
                            self.operand(b, body, owner)
                        ),
                    ),
                    AssertKind::OverflowNeg(a) => {
                        ("overflowneg".to_string(), format!(",\"x\":{}", self.operand(a, body, owner)))
                    }
                    AssertKind::DivisionByZero(a) => {
                        ("divzero".to_string(), format!(",\"x\":{}", self.operand(a, body, owner)))
                    }
                    AssertKind::RemainderByZero(a) => {
                        ("remzero".to_string(), format!(",\"x\":{}", self.operand(a, body, owner)))
                    }
                    AssertKind::MisalignedPointerDereference { .. } => {
                        ("misaligned".to_string(), String::new())
                    }
                    AssertKind::NullPointerDereference => ("nullptr".to_string(), String::new()),
                    _ => ("other".to_string(), String::new()),
                };
                let _ = write!(
                    o,
                    "{{\"k\":\"assert\",\"c\":{},\"e\":{},\"ak\":{}{},\"t\":{},\"uw\":{},\"sp\":{}}}",
                    self.operand(cond, body, owner),
                    expected,
                    self.s(&kind),
                    extra,
                    target.as_usize(),
                    uw,
                    sp
                );
            }
            TerminatorKind::FalseEdge { real_target, .. } => {
                let _ = write!(o, "{{\"k\":\"goto\",\"t\":{}}}", real_target.as_usize());
            }
            TerminatorKind::FalseUnwind { real_target, .. } => {
                let _ = write!(o, "{{\"k\":\"goto\",\"t\":{}}}", real_target.as_usize());
            }
            other => {
                let s = format!("{:?}", other);
                let _ = write!(o, "{{\"k\":\"other\",\"s\":{}}}", self.s(&s));
            }
        }
        if bb.is_cleanup {
            o.push_str(",\"cu\":1");
        }
        o.push('}');
        o
    }

    fn body(&mut self, body: &Body<'tcx>, owner: DefId) -> String {
        let mut o = String::new();
        let _ = write!(o, "{{\"argc\":{},\"locals\":[", body.arg_count);
        for (i, (_l, d)) in body.local_decls.iter_enumerated().enumerate() {
            if i > 0 {
                o.push(',');
            }
            let m = if d.mutability.is_mut() { ",\"mut\":1" } else { "" };
            let _ = write!(o, "{{\"ty\":{}{}}}", self.ty(d.ty), m);
        }
        o.push_str("],\"vars\":[");
        let mut first = true;
        for vdi in &body.var_debug_info {
            if let mir::VarDebugInfoContents::Place(p) = &vdi.value {
                if !first {
                    o.push(',');
                }
                first = false;
                let _ = write!(
                    o,
                    "{{\"n\":{},\"p\":{}}}",
                    self.s(vdi.name.as_str()),
                    self.place(p, body)
                );
            }
        }
        o.push_str("],\"bbs\":[");
        for (i, (_bb, data)) in body.basic_blocks.iter_enumerated().enumerate() {
            if i > 0 {
                o.push(',');
            }
            o.push_str(&self.block(data, body, owner));
        }
        o.push_str("]}");
        o
    }
}

// ------------------------------------------------------------------------------------------------
// HIR visitor: unsafe blocks
// ------------------------------------------------------------------------------------------------

struct UnsafeVisitor<'tcx> {
    tcx: TyCtxt<'tcx>,
    blocks: Vec<(Span, LocalDefId)>,
}

impl<'tcx> Visitor<'tcx> for UnsafeVisitor<'tcx> {
    type NestedFilter = rustc_middle::hir::nested_filter::OnlyBodies;
    fn maybe_tcx(&mut self) -> Self::MaybeTyCtxt {
        self.tcx
    }
    fn visit_block(&mut self, b: &'tcx rustc_hir::Block<'tcx>) {
        if let rustc_hir::BlockCheckMode::UnsafeBlock(rustc_hir::UnsafeSource::UserProvided) =
            b.rules
        {
            let owner = self.tcx.hir_enclosing_body_owner(b.hir_id);
            self.blocks.push((b.span, owner));
        }
        intravisit::walk_block(self, b);
    }
}

// ------------------------------------------------------------------------------------------------

fn dump<'tcx>(tcx: TyCtxt<'tcx>, rustc_args: &[String]) {
    let out_dir = match std::env::var("DASHU_FACTS_OUT") {
        Ok(d) => d,
        Err(_) => return,
    };
    let krate = tcx.crate_name(LOCAL_CRATE).to_string();
    let mut cx = Cx { tcx, strs: Interner::default(), krate: krate.clone() };
    let mut o = String::with_capacity(1 << 24);
    o.push_str("{\"crate\":");
    esc(&krate, &mut o);
    // rustc args (features, cfgs)
    o.push_str(",\"args\":[");
    for (i, a) in rustc_args.iter().enumerate() {
        if i > 0 {
            o.push(',');
        }
        esc(a, &mut o);
    }
    o.push(']');
    let dbg = tcx.sess.opts.debug_assertions;
    let ovf = tcx.sess.overflow_checks();
    let _ = write!(o, ",\"debug_assertions\":{},\"overflow_checks\":{}", dbg, ovf);
    let ptr_bits = tcx.data_layout.pointer_size().bits();
    let _ = write!(o, ",\"pointer_bits\":{}", ptr_bits);

    // ---------------- items
    let items = tcx.hir_crate_items(());
    let mut fns = String::new();
    let mut adts = String::new();
    let mut impls = String::new();
    let mut consts = String::new();
    let mut nfn = 0usize;
    for ldid in items.definitions() {
        let did = ldid.to_def_id();
        let dk = tcx.def_kind(did);
        match dk {
            DefKind::Struct | DefKind::Enum | DefKind::Union => {
                let adt = tcx.adt_def(did);
                if !adts.is_empty() {
                    adts.push(',');
                }
                let dp = cx.dp(did);
                let p = cx.path(did);
                let repr = adt.repr();
                let reprs = format!(
                    "{}{}{}",
                    if repr.transparent() { "transparent " } else { "" },
                    if repr.c() { "C " } else { "" },
                    if repr.packed() { "packed " } else { "" }
                );
                let _ = write!(
                    adts,
                    "{{\"d\":{},\"p\":{},\"kind\":\"{:?}\",\"repr\":{},\"vis\":{},\"sp\":{},\"variants\":[",
                    cx.s(&dp),
                    cx.s(&p),
                    dk,
                    cx.s(reprs.trim()),
                    cx.s(&format!("{:?}", tcx.visibility(did))),
                    cx.span(tcx.def_span(did)),
                );
                for (vi, v) in adt.variants().iter().enumerate() {
                    if vi > 0 {
                        adts.push(',');
                    }
                    let _ = write!(adts, "{{\"n\":{},\"fields\":[", cx.s(v.name.as_str()));
                    for (fi, f) in v.fields.iter().enumerate() {
                        if fi > 0 {
                            adts.push(',');
                        }
                        let fty = tcx.type_of(f.did).instantiate_identity().skip_norm_wip();
                        let vis = match f.vis {
                            ty::Visibility::Public => "pub".to_string(),
                            ty::Visibility::Restricted(m) => {
                                format!("restricted:{}", cx.dp(m))
                            }
                        };
                        let _ = write!(
                            adts,
                            "{{\"n\":{},\"ty\":{},\"vis\":{}}}",
                            cx.s(f.name.as_str()),
                            cx.ty(fty),
                            cx.s(&vis)
                        );
                    }
                    adts.push_str("]}");
                }
                adts.push_str("]}");
            }
            DefKind::Impl { of_trait } => {
                if !impls.is_empty() {
                    impls.push(',');
                }
                let dp = cx.dp(did);
                let self_ty = tcx.type_of(did).instantiate_identity().skip_norm_wip();
                let _ = write!(
                    impls,
                    "{{\"d\":{},\"self\":{},\"sp\":{}",
                    cx.s(&dp),
                    cx.ty(self_ty),
                    cx.span(tcx.def_span(did))
                );
                if of_trait {
                    let tr = tcx.impl_trait_ref(did).instantiate_identity().skip_norm_wip();
                    let trs = with_no_trimmed_paths!(format!("{}", tr.print_only_trait_path()));
                    let trp = cx.path(tr.def_id);
                    let _ = write!(impls, ",\"trait\":{},\"tp\":{}", cx.s(&trs), cx.s(&trp));
                    let hdr = tcx.impl_trait_header(did);
                    if !hdr.safety.is_safe() {
                        impls.push_str(",\"unsafe\":1");
                    }
                    if matches!(hdr.polarity, ty::ImplPolarity::Negative) {
                        impls.push_str(",\"neg\":1");
                    }
                }
                // associated items
                impls.push_str(",\"items\":[");
                let mut first = true;
                for ai in tcx.associated_items(did).in_definition_order() {
                    if !first {
                        impls.push(',');
                    }
                    first = false;
                    let aidp = cx.dp(ai.def_id);
                    let mut extra = String::new();
                    if matches!(ai.kind, ty::AssocKind::Type { .. }) {
                        let t = tcx.type_of(ai.def_id).instantiate_identity().skip_norm_wip();
                        extra = format!(",\"ty\":{}", cx.ty(t));
                    }
                    let _ = write!(
                        impls,
                        "{{\"n\":{},\"d\":{},\"k\":{}{}}}",
                        cx.s(ai.name().as_str()),
                        cx.s(&aidp),
                        cx.s(&format!("{:?}", ai.kind.as_def_kind())),
                        extra
                    );
                }
                impls.push_str("]}");
            }
            DefKind::Const { .. } | DefKind::AssocConst { .. } => {
                let t = tcx.type_of(did).instantiate_identity().skip_norm_wip();
                if t.is_integral() || t.is_bool() || t.is_floating_point() {
                    let generics = tcx.generics_of(did);
                    if generics.count() == 0 {
                        let r = std::panic::catch_unwind(std::panic::AssertUnwindSafe(|| {
                            tcx.const_eval_poly(did)
                        }));
                        if let Ok(Ok(val)) = r {
                            if let Some(si) = val.try_to_scalar_int() {
                                let sz = si.size();
                                if !consts.is_empty() {
                                    consts.push(',');
                                }
                                let dp = cx.dp(did);
                                let _ = write!(
                                    consts,
                                    "{{\"d\":{},\"ty\":{},\"v\":\"{}\",\"sz\":{}}}",
                                    cx.s(&dp),
                                    cx.ty(t),
                                    si.to_bits(sz),
                                    sz.bytes()
                                );
                            }
                        }
                    }
                }
            }
            _ => {}
        }
    }

    // ---------------- function bodies
    for ldid in tcx.mir_keys(()) {
        let did = ldid.to_def_id();
        let dk = tcx.def_kind(did);
        if !matches!(dk, DefKind::Fn | DefKind::AssocFn | DefKind::Closure) {
            continue;
        }
        if !tcx.is_mir_available(did) {
            continue;
        }
        // constructors of tuple structs have DefKind::Ctor, skipped above
        let body = tcx.optimized_mir(did);
        if nfn > 0 {
            fns.push(',');
        }
        nfn += 1;
        let dp = cx.dp(did);
        let path = cx.path(did);
        let _ = write!(
            fns,
            "{{\"d\":{},\"p\":{},\"kind\":\"{:?}\",\"sp\":{}",
            cx.s(&dp),
            cx.s(&path),
            dk,
            cx.span(tcx.def_span(did))
        );
        // whole-item span (including body)
        let full = tcx.hir_span_with_body(tcx.local_def_id_to_hir_id(*ldid));
        let _ = write!(fns, ",\"fsp\":{}", cx.span(full));
        if matches!(dk, DefKind::Fn | DefKind::AssocFn) {
            let vis = tcx.visibility(did);
            let _ = write!(fns, ",\"vis\":{}", cx.s(&format!("{:?}", vis)));
            let sig = tcx.fn_sig(did).skip_binder().skip_binder();
            if !sig.safety().is_safe() {
                fns.push_str(",\"unsafe\":1");
            }
            if tcx.is_const_fn(did) {
                fns.push_str(",\"const\":1");
            }
            if tcx.is_doc_hidden(did) {
                fns.push_str(",\"doc_hidden\":1");
            }
            if rustc_hir::find_attr!(tcx, did, MustUse { .. }) {
                fns.push_str(",\"must_use\":1");
            }
            fns.push_str(",\"inputs\":[");
            for (i, t) in sig.inputs().iter().enumerate() {
                if i > 0 {
                    fns.push(',');
                }
                fns.push_str(&cx.ty(*t));
            }
            let _ = write!(fns, "],\"output\":{}", cx.ty(sig.output()));
            let _ = write!(fns, ",\"name\":{}", cx.s(tcx.item_name(did).as_str()));
            // parent impl / trait
            if let Some(parent) = tcx.opt_parent(did) {
                match tcx.def_kind(parent) {
                    DefKind::Impl { of_trait } => {
                        let self_ty = tcx.type_of(parent).instantiate_identity().skip_norm_wip();
                        let pdp = cx.dp(parent);
                        let _ = write!(
                            fns,
                            ",\"impl\":{},\"self_ty\":{}",
                            cx.s(&pdp),
                            cx.ty(self_ty)
                        );
                        if of_trait {
                            let tr =
                                tcx.impl_trait_ref(parent).instantiate_identity().skip_norm_wip();
                            let trs =
                                with_no_trimmed_paths!(format!("{}", tr.print_only_trait_path()));
                            let _ = write!(fns, ",\"trait\":{}", cx.s(&trs));
                        }
                    }
                    DefKind::Trait => {
                        let tp = cx.path(parent);
                        let _ = write!(fns, ",\"in_trait\":{}", cx.s(&tp));
                    }
                    _ => {}
                }
            }
        } else {
            // closure: parent fn
            let parent = tcx.typeck_root_def_id(did);
            let pdp = cx.dp(parent);
            let _ = write!(fns, ",\"closure_of\":{}", cx.s(&pdp));
        }
        let b = cx.body(body, did);
        let _ = write!(fns, ",\"mir\":{}", b);
        // promoted bodies
        let promoted = tcx.promoted_mir(did);
        if !promoted.is_empty() {
            fns.push_str(",\"promoted\":[");
            for (i, pb) in promoted.iter().enumerate() {
                if i > 0 {
                    fns.push(',');
                }
                let b = cx.body(pb, did);
                fns.push_str(&b);
            }
            fns.push(']');
        }
        fns.push('}');
    }

    // ---------------- unsafe blocks
    let mut uv = UnsafeVisitor { tcx, blocks: Vec::new() };
    tcx.hir_visit_all_item_likes_in_crate(&mut uv);
    let mut ub = String::new();
    for (i, (sp, owner)) in uv.blocks.iter().enumerate() {
        if i > 0 {
            ub.push(',');
        }
        let odp = cx.dp(owner.to_def_id());
        let _ = write!(ub, "{{\"sp\":{},\"owner\":{}}}", cx.span(*sp), cx.s(&odp));
    }

    let _ = write!(
        o,
        ",\"fns\":[{}],\"adts\":[{}],\"impls\":[{}],\"consts\":[{}],\"unsafe_blocks\":[{}]",
        fns, adts, impls, consts, ub
    );
    o.push_str(",\"strs\":[");
    for (i, s) in cx.strs.list.iter().enumerate() {
        if i > 0 {
            o.push(',');
        }
        esc(s, &mut o);
    }
    o.push_str("]}");
    let _ = &cx.krate;
    let path = format!("{}/{}-{}.json", out_dir, krate, std::process::id());
    let tmp = format!("{}.tmp", path);
    std::fs::write(&tmp, o).expect("write facts");
    std::fs::rename(&tmp, &path).expect("rename facts");
}

struct Cb {
    args: Vec<String>,
}

impl rustc_driver::Callbacks for Cb {
    fn after_analysis<'tcx>(&mut self, _c: &Compiler, tcx: TyCtxt<'tcx>) -> Compilation {
        let name = tcx.crate_name(LOCAL_CRATE).to_string();
        if WORKSPACE.contains(&name.as_str()) {
            dump(tcx, &self.args);
        }
        Compilation::Continue
    }
}

fn main() {
    let argv: Vec<String> = std::env::args().collect();
    // argv[0] = driver, argv[1] = real rustc path (workspace wrapper protocol)
    let mut args: Vec<String> = vec!["rustc".to_string()];
    args.extend(argv.iter().skip(2).cloned());
    let mut cb = Cb { args: args.clone() };
    rustc_driver::run_compiler(&args, &mut cb);
}
