#!/usr/bin/env python3
"""Regenerate /verif/MANIFEST.json from the rule modules' metadata (keeps it valid at all times)."""
import importlib, json, os, sys
VERIF = os.path.dirname(os.path.dirname(os.path.abspath(__file__)))
sys.path.insert(0, VERIF)

NOT_APPLICABLE = {
    "C07": "digit strings, padding layout and byte encodings are functions of runtime values (radix tables, chunked conversion, two's-complement carries); no sound static argument in reach. The shape clauses (parsers never panic, radix guard) are decided under C16.",
    "C08": "losslessness of float text I/O and faithful rounding of base/precision changes are numerical error bounds over runtime values; shape clauses live under C16 (parser) and C19 (deserialiser).",
    "C09": "two's-complement identities realised through magnitude-1 tricks and word scans are bit-level value properties; the sign dispatch is not polynomial so the ALG table check does not apply.",
    "C11": "a 1-ulp accuracy bound depends on whether heuristic guard-digit counts suffice for every argument and precision: numerical analysis, not code shape. Unlimited-precision refusal and domain guards are decided under C16.",
    "C12": "gcd/Bezout identities, root and logarithm inequalities are number-theoretic invariants of loops over runtime values (Lehmer steps, Newton iteration); the documented panics are decided under C16.",
    "C14": "agreement of the log2-bound filter with exact comparison near the overlap boundary and modular-hash consistency are numeric; the structural part (conservative orientation of the filter, Eq/Hash projection agreement) is decided under C05 (R05.2, R05.3c).",
}
ALL = ["C%02d" % i for i in range(1, 21)]

def main():
    checks, na = [], []
    for pid in ALL:
        try:
            mod = importlib.import_module("rules." + pid.lower())
        except ImportError:
            mod = None
        if mod is None or getattr(mod, "DISABLED", False):
            reason = NOT_APPLICABLE.get(pid) or getattr(mod, "NA_REASON", None) or "static check for this property is not built yet (planned in DESIGN.md section 3); nothing is claimed"
            na.append({"property_id": pid, "reason": reason})
            continue
        checks.append({
            "property_id": pid,
            "quick_cmd": "./check %s --tier quick" % pid,
            "thorough_cmd": "./check %s --tier thorough" % pid,
            "evidence_file": "/verif/evidence/%s.json" % pid,
            "replay_cmd_template": "./check %s --replay {path}" % pid,
            "engine": "dashu-facts + rules",
            "level_claimed": {"category": "other", "text": mod.LEVEL, "design_ref": "DESIGN.md section 4, " + pid},
            "level_note": "Trusted base: " + "; ".join(mod.TRUSTED) + ". " + getattr(mod, "NOTE", "Decides the code-shape clauses named above, not the numeric behaviour as a whole."),
            "technique": getattr(mod, "TECHNIQUE", "static analysis of MIR (rustc_private driver): dominance / must-pass-through / typestate / who-may-write rules with reviewed instance tables"),
        })
    man = {
        "version": 1,
        "setup_cmd": "cd /verif/driver && CARGO_NET_OFFLINE=true cargo build --offline 2>&1 | tail -3",
        "hooks": {"guard": "dashu_verif", "enable": "not used: static analysis reads /repo's source through `cargo +nightly check` with the dashu-facts rustc wrapper; no hook is compiled into cmpute/dashu",
                  "baseline_off_cmd": "cd /repo && cargo test --workspace --no-fail-fast --offline", "source_commits": [], "add_only": True},
        "engines": [
            {"name": "dashu-facts", "path": "/verif/driver", "serves_properties": [c["property_id"] for c in checks],
             "kind_free_text": "rustc_private driver (RUSTC_WORKSPACE_WRAPPER) exporting items, impl table, unoptimised MIR with resolved callees, HIR unsafe blocks, constants for 5 build configurations"},
            {"name": "rules", "path": "/verif/rules", "serves_properties": [c["property_id"] for c in checks],
             "kind_free_text": "Python rule engine over the fact base: CFG/dominators, must-pass-through, symbolic guard facts, typestate with function summaries, coprimality prover, who-may-write tables, finite decision tables over abstract domains, bound-polarity type system, half-test pairing, sibling agreement, frozen inventories"},
            {"name": "witness", "path": "/verif/rules/witness.py", "serves_properties": ["C05", "C13", "C17", "C20"],
             "kind_free_text": "compile-fail doc-test witnesses with compiling twins (cargo +nightly test --doc --offline on a generated crate path-depending on /repo); thorough tier only"},
        ],
        "checks": checks,
        "not_applicable": na,
        "notes": "Technique family: static analysis only. Every check re-extracts facts from /repo's current working tree (cached by a hash of all sources + the driver). Known genuine defects are listed in /verif/known_findings.json and printed as KNOWN-FINDING.",
    }
    with open(os.path.join(VERIF, "MANIFEST.json"), "w") as fh:
        json.dump(man, fh, indent=1)
    print("claimed:", [c["property_id"] for c in checks])
    print("not applicable:", [n["property_id"] for n in na])

if __name__ == "__main__":
    main()
