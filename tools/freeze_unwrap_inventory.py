#!/usr/bin/env python3
"""Freeze tables/unwrap_inventory.json: the unwrap()/expect() sites outside the primitive-operand
macro groups, per (function, method) with their count, over all five configurations.  Run by hand
after reviewing new sites; checks never write this file."""
import json, os, sys
VERIF = os.path.dirname(os.path.dirname(os.path.abspath(__file__)))
sys.path.insert(0, VERIF)
from rules import facts, c16
inv = {}
per = {}
facts.extract_many(list(facts.CONFIGS))
for cfg in facts.CONFIGS:
    for P in facts.load(cfg):
        per[P.name] = dict(sorted(c16.other_unwraps(P).items()))
        for k, c in per[P.name].items():
            inv[k] = max(inv.get(k, 0), c)
out = dict(sorted(inv.items()))
out["_per_config"] = per
json.dump(out, open(os.path.join(VERIF, "tables", "unwrap_inventory.json"), "w"), indent=1)
print(len(inv), "entries,", len(per), "configurations")
