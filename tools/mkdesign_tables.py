#!/usr/bin/env python3
"""Regenerate the machine-derived tables of DESIGN.md (between <!-- BEGIN:x --> / <!-- END:x --> markers)
from evidence/*.json (rule inventory), seeded/*/meta.json + seeded/RESULTS.json (which check catches
which seeded change) and selftest/breaks.py (planted breaks)."""
import glob
import json
import os
import re
import sys

VERIF = os.path.dirname(os.path.dirname(os.path.abspath(__file__)))
sys.path.insert(0, os.path.join(VERIF, "selftest"))


def rules_table():
    out = []
    for p in sorted(glob.glob(os.path.join(VERIF, "evidence", "C*.json"))):
        e = json.load(open(p))
        cov = e["coverage"]
        out.append("**%s** (%s tier, configurations %s; %d obligations, %d distinct non-trivial)\n" % (
            e["property_id"], e["tier"], ", ".join(cov.get("configurations", [])), cov["obligations"], cov["distinct_nontrivial"]))
        out.append("| rule | obligations | what is decided |")
        out.append("|---|---|---|")
        for rid, r in cov["rules"].items():
            out.append("| %s | %d | %s |" % (rid, r["obligations"], r["text"].replace("|", "\\|")))
        out.append("")
    return "\n".join(out)


def seeded_table():
    res = {}
    rp = os.path.join(VERIF, "seeded", "RESULTS.json")
    if os.path.exists(rp):
        res = json.load(open(rp))
    out = ["| id | change (one line) | needs to manifest | caught by (property[rules]) |", "|---|---|---|---|"]
    caught = missed = 0
    for d in sorted(glob.glob(os.path.join(VERIF, "seeded", "C*-m*"))):
        name = os.path.basename(d)
        m = json.load(open(os.path.join(d, "meta.json")))
        cb = res.get(name, {}).get("caught_by", {})
        if cb:
            caught += 1
            c = "; ".join("%s[%s]" % (p, ",".join(v["rules"])) for p, v in sorted(cb.items()))
        else:
            missed += 1
            c = "**missed**" if name in res else "(not run)"
        title = (m.get("title") or m.get("what_breaks", ""))[:150].replace("|", "\\|").replace("\n", " ")
        needs = (m.get("needs_to_manifest") or "")[:130].replace("|", "\\|").replace("\n", " ")
        out.append("| %s | %s | %s | %s |" % (name, title, needs, c))
    out.append("")
    out.append("%d seeded changes: %d caught, %d missed." % (caught + missed, caught, missed))
    return "\n".join(out)


def breaks_table():
    import breaks
    out = ["| planted break | property | rule that must fire | edit |", "|---|---|---|---|"]
    for b in breaks.B:
        path, old, new = b["edits"][0]
        out.append("| %s | %s | %s | `%s`: `%s` → `%s` |" % (b["id"], b["prop"], b["rule"], path,
                   re.sub(r"\s+", " ", old.strip())[:60].replace("|", "\\|").replace("`", "'"),
                   re.sub(r"\s+", " ", new.strip())[:60].replace("|", "\\|").replace("`", "'")))
    out.append("")
    out.append("%d planted breaks." % len(breaks.B))
    return "\n".join(out)


def main():
    p = os.path.join(VERIF, "DESIGN.md")
    s = open(p).read()
    for name, fn in (("rules", rules_table), ("seeded", seeded_table), ("breaks", breaks_table)):
        b, e = "<!-- BEGIN:%s -->" % name, "<!-- END:%s -->" % name
        if b in s and e in s:
            i, j = s.index(b) + len(b), s.index(e)
            s = s[:i] + "\n" + fn() + "\n" + s[j:]
    open(p, "w").write(s)


if __name__ == "__main__":
    main()
