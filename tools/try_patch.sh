#!/bin/bash
# usage: tools/try_patch.sh <dir with patch.diff> <Cxx> [Cyy ...]   -- run checks against a scratch copy with the patch applied
set -e
d=$(mktemp -d /tmp/dashu-try-XXXX)
trap "rm -rf $d" EXIT
rsync -a --exclude target --exclude .git /repo/ $d/repo/
(cd $d/repo && patch -p1 -s -i "$(realpath $1)/patch.diff")
shift
for p in "$@"; do
  DASHU_REPO=$d/repo VERIF_OUT=$d/out VERIF_CACHE=$d/cache /verif/check $p --tier quick 2>&1 | grep -v "^\[facts" | grep -E "^\s+\[R|VIOLATION|quick:|at " | cut -c1-900
done
