#!/usr/bin/env python3
"""Freeze the printed paths of all functions of the reviewed tree, keyed by their location-independent
canonical identity (rules/facts.py: canon).  facts.Program uses the table to keep the *reviewed spelling* of
a function whose impl block was merely moved to another module, so that the reviewed tables (which are keyed
by printed paths) keep matching.  Re-run after reviewing a tree:  python3 tools/freeze_paths.py"""
import json, os, sys
VERIF = os.path.dirname(os.path.dirname(os.path.abspath(__file__)))
sys.path.insert(0, VERIF)
os.environ["DASHU_NO_PATH_PINNING"] = "1"
from rules import facts

ref = {}
sigs = {}
amb = set()
facts.extract_many(facts.CONFIGS if isinstance(facts.CONFIGS, (list, tuple)) else list(facts.CONFIGS))
for cfg in (facts.CONFIGS if isinstance(facts.CONFIGS, (list, tuple)) else list(facts.CONFIGS)):
    for P in facts.load(cfg):
        for f in P.fns():
            if not f["crate"].startswith("dashu"):
                continue
            c = facts.canon(f["p"])
            if c in ref and ref[c] != f["p"]:
                amb.add(c)
            ref.setdefault(c, f["p"])
            if f.get("mir") and f.get("kind") != "Closure":
                v = [facts.signature(f), facts.skeleton(f)]
                if v not in sigs.setdefault(f["p"], []):
                    sigs[f["p"]].append(v)
for c in amb:
    ref.pop(c, None)
json.dump({"paths": ref, "sigs": sigs}, open(os.path.join(VERIF, "tables", "paths.json"), "w"), indent=0, sort_keys=True)
print("frozen %d function identities (%d ambiguous dropped)" % (len(ref), len(amb)))
