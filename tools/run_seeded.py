#!/usr/bin/env python3
"""Run the registered checks against every seeded change under /verif/seeded (each applied to a
scratch copy of /repo under /tmp, removed afterwards) and report which rules catch which change.

usage: tools/run_seeded.py [--only C01-m1,...] [--props C01,C02] [--jobs N] [--json out.json]
The result table is written to seeded/RESULTS.json (informative; not evidence)."""
import argparse
import concurrent.futures
import glob
import json
import os
import re
import shutil
import subprocess
import sys
import tempfile

VERIF = os.path.dirname(os.path.dirname(os.path.abspath(__file__)))
REPO = os.environ.get("DASHU_REPO", "/repo")
ALL = ["C01", "C02", "C03", "C04", "C05", "C06", "C10", "C13", "C15", "C16", "C17", "C18", "C19", "C20"]


def run_one(sd, props):
    name = os.path.basename(sd)
    tmp = tempfile.mkdtemp(prefix="dashu-seeded-")
    try:
        dst = os.path.join(tmp, "repo")
        base = None
        try:
            base = json.load(open(os.path.join(sd, "meta.json"))).get("base")
        except Exception:
            pass
        if base:
            # a patch whose lines were later changed by a `fix:` commit is kept against the commit it was written for
            os.makedirs(dst)
            subprocess.check_call("git -C %s archive %s | tar -x -C %s" % (REPO, base, dst), shell=True)
        else:
            subprocess.check_call(["rsync", "-a", "--exclude", "target", "--exclude", ".git", REPO + "/", dst + "/"])
        p = subprocess.run(["patch", "-p1", "-s", "-i", os.path.join(sd, "patch.diff")], cwd=dst, stdout=subprocess.PIPE, stderr=subprocess.STDOUT, text=True)
        if p.returncode != 0:
            return name, {"error": "patch does not apply: " + p.stdout[-300:]}
        env = dict(os.environ)
        env["DASHU_REPO"] = dst
        env["VERIF_OUT"] = os.path.join(tmp, "out")
        env["VERIF_CACHE"] = os.path.join(tmp, "cache")     # facts of the scratch tree die with it
        caught = {}
        for prop in props:
            q = subprocess.run([os.path.join(VERIF, "check"), prop, "--tier", "quick"], cwd=VERIF, env=env, stdout=subprocess.PIPE, stderr=subprocess.STDOUT, text=True)
            rules = sorted(set(re.findall(r"^\s+\[(R[0-9.a-z]+)\]", q.stdout, re.M)))
            msgs = [l.strip()[:220] for l in q.stdout.splitlines() if re.match(r"^\s+\[R", l)]
            if q.returncode != 0:
                caught[prop] = {"rules": rules, "first": msgs[:2]}
        return name, {"caught_by": caught}
    finally:
        shutil.rmtree(tmp, ignore_errors=True)


def main():
    ap = argparse.ArgumentParser()
    ap.add_argument("--only")
    ap.add_argument("--props")
    ap.add_argument("--jobs", type=int, default=4)
    ap.add_argument("--dir", default="seeded", help="seeded (breaking changes: must be caught) or refactors (behaviour-preserving changes: must stay silent)")
    a = ap.parse_args()
    dirs = sorted(glob.glob(os.path.join(VERIF, a.dir, "*-*")))
    dirs = [d for d in dirs if os.path.isdir(d)]
    if a.only:
        dirs = [d for d in dirs if os.path.basename(d) in a.only.split(",")]
    props = a.props.split(",") if a.props else ALL
    out_path = os.path.join(VERIF, a.dir, "RESULTS.json")
    results = json.load(open(out_path)) if os.path.exists(out_path) else {}
    with concurrent.futures.ThreadPoolExecutor(max_workers=a.jobs) as ex:
        for name, r in ex.map(lambda d: run_one(d, props), dirs):
            cb = r.get("caught_by", {})
            quiet = "silent" if a.dir != "seeded" else "missed"
            print("%-8s %s" % (name, ((("CAUGHT by " if a.dir == "seeded" else "ALARM from ") + ", ".join("%s[%s]" % (p, ",".join(v["rules"])) for p, v in cb.items())) if cb else (quiet if "error" not in r else r["error"]))))
            sys.stdout.flush()
            # with --props the listed properties are re-decided (their old entries are dropped), the others are kept
            prev = {k: v for k, v in results.get(name, {}).get("caught_by", {}).items() if k not in props} if a.props else {}
            prev.update(cb)
            results[name] = {"caught_by": prev} if "error" not in r else r
    json.dump(results, open(out_path, "w"), indent=1, sort_keys=True)


if __name__ == "__main__":
    main()
