#!/bin/bash
# usage: tools/with_patch.sh <seeded-id> <Cxx> [Cyy ...]  -- run checks against a scratch copy of /repo with the seeded patch applied
set -e
S=$1; shift
T=$(mktemp -d /tmp/dashu-wp-XXXX)
rsync -a --exclude target --exclude .git /repo/ $T/repo/
(cd $T/repo && patch -p1 -s -i /verif/seeded/$S/patch.diff)
for c in "$@"; do DASHU_REPO=$T/repo VERIF_OUT=$T/out VERIF_CACHE=$T/cache /verif/check $c --tier quick 2>&1 | grep -v "^VIOLATION\|^      key" | grep "^  \[\|quick:\|Error\|Traceback\|File \"/verif" | cut -c1-400; done
rm -rf $T
