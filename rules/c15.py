"""C15 — all forms of an operator give the same answer.  Decides agreement *of structure* between
sibling forms (owned/borrowed, assign, primitive, trait-method forms): same kernels, same operand
order, pure adapters.  Not decided: that the shared kernel is right."""
import re
from collections import defaultdict

from . import mir, sym, guards
from .mir import span_loc
from .c16 import root_arg as _root_arg16


def root_arg(t):
    """parameter an operand term is derived from, also through From/Into conversions"""
    t = strip_bb(t)
    while isinstance(t, tuple):
        if t[0] in ('ref', 'refmut'):
            t = t[1]
        elif t[0] == 'place':
            t = t[1]
        elif t[0] == 'call' and t[2] and (t[1].endswith(('>::from', '>::into', '::into_repr', '::repr')) or t[1] in ('core::mem::take', 'core::mem::replace')
                                          or t[1].endswith('as core::clone::Clone>::clone')):
            t = t[2][0]
        else:
            break
    return t[1] if isinstance(t, tuple) and t[0] == 'arg' else None
from .c17b import strip_bb, strip_ref_ty

PROP = "C15"
CONFIGS = {"quick": ["dbg", "feat"], "thorough": ["dbg", "rel", "feat", "w32", "nostd"]}
LEVEL = ("Static agreement of sibling forms, for all 2 700+ operator impl bodies: (R15.1) every form of a family "
         "(trait, operand base types) reaches the same set of kernel functions through adapters/delegation only, "
         "and (R15.1b) so do the per-ownership operator impls on TypedRepr/TypedReprRef underneath UBig/IBig; "
         "(R15.2) every *Assign form reaches the kernels of its value family, by take-delegation, forwarding, or "
         "(hand-written) with an equal effect summary; (R15.3) delegating forms pass their operands in order "
         "(swaps only in reviewed commutative families) and contain nothing but conversions, one delegation and "
         "try_into/unwrap; (R15.4) wrapper clone/clone_from delegate field-wise. Whether the shared kernel "
         "computes the right value is not decided here.")
TRUSTED = ["rustc MIR and callee resolution", "the adapter table and reviewed kernel differences in rules/c15.py"]

OPS = ("core::ops::arith::", "core::ops::bit::", "dashu_base::ring::div_rem::", "dashu_base::ring::DivRem", "dashu_base::ring::DivEuclid",
       "dashu_base::ring::RemEuclid", "dashu_base::ring::DivRemEuclid", "dashu_base::ring::DivRemAssign", "dashu_base::ring::Gcd",
       "dashu_base::ring::ExtendedGcd", "dashu_base::math::Inverse")
PUBLIC_TYPES = ("dashu_int::ubig::UBig", "dashu_int::ibig::IBig", "dashu_float::fbig::FBig<", "dashu_ratio::rbig::RBig",
                "dashu_ratio::rbig::Relaxed", "dashu_int::modular::repr::Reduced<")
PRIMS = {"u8", "u16", "u32", "u64", "u128", "usize", "i8", "i16", "i32", "i64", "i128", "isize"}
NONCOMM = ("Sub", "Div", "Rem", "Shl", "Shr", "DivRem", "DivEuclid", "RemEuclid", "DivRemEuclid", "ExtendedGcd")

# calls that are adapters, not kernels
ADAPTER_SUFFIX = (
    "::into_repr", "::repr", "::as_sign_repr", "::into_sign_repr", "::as_ref", "::as_typed", "::into_typed", "::as_sign_typed",
    "::into_sign_typed", "::with_sign", "::into_parts", "::numerator", "::denominator", "::from_parts", "::context",
    "::precision", "::sign", "::is_zero", "::is_one", "::from_repr", "::new", "::value", "::max", "::repr_mut", "::significand",
    "::unsigned_abs", "::into_ibig", "::as_ibig", "::is_positive", "::is_negative",
)
ADAPTER_EXACT_PREFIX = ("dashu_float::error::assert_", "dashu_float::error::panic_", "dashu_int::error::panic_", "dashu_ratio::error::panic_",
                        "dashu_base::")


_IMPL = re.compile(r"^(.*)<impl ([A-Za-z_0-9:]+)(?:<(.*)>)? for (.*)>::([a-z_0-9]+)$")


def norm(p):
    p = re.sub(r"'[a-z_0-9]+ ", "", p).replace("&", "").replace("mut ", "")
    p = re.sub(r"<'[a-z_0-9]+>", "", p)
    p = p.replace("TypedReprRef<>", "TypedRepr").replace("TypedReprRef", "TypedRepr")
    m = _IMPL.match(p)
    if m:
        pre, tr, rhs, slf, meth = m.groups()
        if not rhs:
            rhs = slf            # `impl Add for T` means Add<T>
        p = "%s<impl %s<%s> for %s>::%s" % (pre, tr, rhs, slf, meth)
    return p


def base_ty(t):
    t = strip_ref_ty(t)
    t = re.sub(r"<.*", "", t)
    return t.rsplit("::", 1)[-1]


def is_form(f):
    tr = f.get("trait", "")
    if not tr.startswith(OPS) or f["kind"] == "Closure":
        return False
    s = tr + " " + f.get("self_ty", "")
    return any(p in s for p in PUBLIC_TYPES)


def trait_name(f):
    return re.sub(r"<.*", "", f.get("trait", "")).rsplit("::", 1)[-1]


def rhs_ty(f):
    m = re.search(r"<(.*)>$", f.get("trait", ""))
    if m:
        return m.group(1)
    return f.get("self_ty", "")


# functions that are neither operator impls nor kernels but hand-written per-ownership variants of
# one operation: the signature is taken *through* them
FORM_HELPERS = {
    "dashu_float::add::add_val_val", "dashu_float::add::add_val_ref", "dashu_float::add::add_ref_val", "dashu_float::add::add_ref_ref",
}
# reviewed kernel-name equivalences: ownership variants of one kernel
KERNEL_ALIASES = [
    (re.compile(r"dashu_int::add_ops::repr::sub_large_ref_val"), "dashu_int::add_ops::repr::sub_large"),
    (re.compile(r"::repr_round_ref$"), "::repr_round"),
    # &a - b for Reduced computes into b's storage: b := a - b
    (re.compile(r"dashu_int::modular::add::sub_in_place_swap"), "dashu_int::modular::add::sub_in_place"),
    (re.compile(r"dashu_float::add::<impl dashu_float::repr::Context<R>>::repr_add_small_large"), "dashu_float::add::<impl dashu_float::repr::Context<R>>::repr_add_large_small"),
    (re.compile(r"dashu_float::utils::split_digits_ref"), "dashu_float::utils::split_digits"),
    # reviewed: the by-reference shifts allocate the result instead of shifting in place
    (re.compile(r"dashu_int::shift_ops::repr::(sh[lr])_large_ref$"), r"dashu_int::shift_ops::repr::\1_large"),
]


def alias(k):
    for rx, rep in KERNEL_ALIASES:
        k = rx.sub(rep, k)
    return k


class Forms:
    def __init__(self, P):
        self.P = P
        self.forms = {}
        for f in P.fns():
            if f["crate"] in ("dashu_macros", "dashu_base"):
                continue
            if is_form(f) or f["p"] in FORM_HELPERS:
                self.forms[f["p"]] = f
        self.ks = {}
        self.info = {}

    def classify(self, f):
        """(delegations, kernels, other) of a form body"""
        if f["p"] in self.info:
            return self.info[f["p"]]
        dele, kern = [], []
        S = None
        for bb, t, fr in mir.iter_calls(f["mir"]):
            cp = fr and (fr.get("rp") or fr["p"])
            if not cp or not cp.startswith("dashu_"):
                continue
            if cp in self.forms and cp != f["p"]:
                S = S or sym.Sym(f)
                roots = [root_arg(S.operand(a)) for a in t["a"][:2]]
                dele.append((cp, roots, bb, t))
                continue
            if cp.endswith(ADAPTER_SUFFIX) or cp.startswith(ADAPTER_EXACT_PREFIX):
                continue
            if "as core::clone::Clone>" in cp or "core::convert::From<" in cp or "core::convert::TryFrom<" in cp or "core::convert::Into<" in cp:
                continue
            if "core::default::Default" in cp or "core::cmp::" in cp:
                continue
            S = S or sym.Sym(f)
            roots = [root_arg(S.operand(a)) for a in t["a"][:2]]
            kern.append((cp, roots, bb, t))
        self.info[f["p"]] = (dele, kern)
        return self.info[f["p"]]

    def signature(self, path, stack=()):
        if path in self.ks:
            return self.ks[path]
        if path in stack:
            return frozenset()
        f = self.forms[path]
        dele, kern = self.classify(f)
        out = set(alias(norm(k[0])) for k in kern)
        for d in dele:
            out |= self.signature(d[0], stack + (path,))
        self.ks[path] = frozenset(out)
        return self.ks[path]


def family_key(f):
    tn = trait_name(f)
    a, b = base_ty(f.get("self_ty", "")), base_ty(rhs_ty(f))
    return (f["crate"], tn, f["name"], a, b)


def run(res, programs, tier):
    from . import c19
    c19.shared_r19_2(res, programs)
    res.rule("R15.1", "all ownership forms of one (trait, operand types) family reach the same kernel set through adapters/delegation")
    res.rule("R15.2", "every *Assign / DivRemAssign form reaches exactly the kernels of its value family; hand-written assign forms have the same effect summary as the value form")
    res.rule("R15.3", "delegating forms pass their operands in order (no swap in non-commutative families) and are pure adapters")
    res.rule("R15.4", "wrapper clone / clone_from delegate to the field's clone / clone_from")
    res.rule("R15.5", "ownership-variant / mirrored sibling kernels of dashu-float (repr_round~repr_round_ref, repr_add_large_small~repr_add_small_large, add_val_val~.., split_digits~split_digits_ref) call the same kernels and pass identical decision terms to their shared callee")
    for P in programs:
        cfgname = P.name
        F = Forms(P)
        _r15_1(res, P, cfgname, F)
        if "dashu_int" in P.units:
            _r15_1b(res, P, cfgname)
        _r15_2(res, P, cfgname, F)
        _r15_3(res, P, cfgname, F)
        _r15_4(res, P, cfgname)
        _r15_4b(res, P, cfgname)
        if "dashu_int" in P.units:
            from . import c01
            c01.r01_5(res, P, cfgname, "R01.5")     # shared: the ownership forms of IBig - IBig differ exactly by which arm swaps
        if "dashu_int" in P.units:
            from . import c17b
            res.rule("R17.7", "(shared with C17) Repr::clone_from: the final sign fix-up reads the current sign of self")
            res.rule("R17.8", "(shared with C17) Repr::clone_from frees or reuses the destination buffer on every path")
            from .c17 import storage_view
            c17b._r17_8c(res, storage_view(P), cfgname)
        if "dashu_float" in P.units:
            _r15_6(res, P, cfgname)
            _r15_7(res, P, cfgname)
        if "dashu_float" in P.units:
            _r15_5(res, P, cfgname)


def _r15_1(res, P, cfgname, F):
    fams = defaultdict(list)
    for p, f in F.forms.items():
        if p in FORM_HELPERS:
            continue
        fams[family_key(f)].append(f)
    n = 0
    for key, fs in sorted(fams.items()):
        if len(fs) < 2:
            res.ok("R15.1", cfgname, "family %s (single form)" % (key,), nontrivial=False)
            n += 1
            continue
        sigs = defaultdict(list)
        for f in fs:
            sigs[F.signature(f["p"])].append(f["p"])
        n += len(fs)
        k = "family %s::%s %s x %s [%s]" % (key[1], key[2], key[3], key[4], key[0])
        if len(sigs) == 1:
            res.ok("R15.1", cfgname, k, sample=dict(family=list(key), forms=len(fs), kernels=sorted(next(iter(sigs)))[:6]))
        else:
            # report the minority
            groups = sorted(sigs.items(), key=lambda kv: len(kv[1]))
            minority = groups[0]
            major = groups[-1]
            diff = sorted(set(minority[0]) ^ set(major[0]))
            res.fail("R15.1", cfgname, k,
                     "forms of %s::%s on (%s, %s) do not share their kernels: %s reaches %s (others: %s); difference %s"
                     % (key[1], key[2], key[3], key[4], minority[1][0], sorted(minority[0])[:4], sorted(major[0])[:4], diff[:4]),
                     span_loc(F.forms[minority[1][0]]["sp"]))
    res.floor("R15.1", cfgname, n, 2000, "operator impl bodies")


# R15.1b  the same agreement one level down.  The public forms of UBig / IBig all end in an operator
# impl on TypedRepr / TypedReprRef (`mod repr` of add_ops, mul_ops, bits, ...), again written once per
# ownership combination; R15.1 folds those four impls into one kernel name, so a difference *between*
# them is invisible to it.  Here each such impl is a form and its kernels are the private free
# functions of its own `mod repr` (add_large, and_not_large, ...), followed through delegation to a
# sibling impl.  New private helpers are spliced into their callers by facts._inline_new_helpers, so
# a fresh ownership variant of a kernel shows up as a form that no longer reaches the shared kernel.
def _r15_1b(res, P, cfgname):
    res.rule("R15.1b", "the per-ownership operator impls on TypedRepr / TypedReprRef (the repr level under UBig / IBig) of one (trait, operand) family reach the same private kernels of their module, directly or by delegating to a sibling impl")
    fams = defaultdict(list)
    byp = {}
    for f in P.fns():
        st = f.get("self_ty", "")
        if f["kind"] == "Closure" or not f.get("trait") or "dashu_int::repr::TypedRepr" not in st:
            continue
        key = (f["crate"], trait_name(f), f["name"], base_ty(st).replace("TypedReprRef", "TypedRepr"), base_ty(rhs_ty(f)).replace("TypedReprRef", "TypedRepr"))
        fams[key].append(f)
        byp[f["p"]] = (key, f)
    memo = {}

    def sig(f, key, stack=()):
        if f["p"] in memo:
            return memo[f["p"]]
        mod = f["p"].split("<impl")[0]
        ks = set()
        for bb, t, fr in mir.iter_calls(f["mir"]):
            cp = fr and (fr.get("rp") or fr["p"])
            if not cp:
                continue
            if cp in byp and byp[cp][0] == key and cp != f["p"] and cp not in stack:
                ks |= sig(byp[cp][1], key, stack + (f["p"],))
            elif cp.startswith(mod) and "<impl" not in cp:
                ks.add(alias(norm(cp)))
        memo[f["p"]] = frozenset(ks)
        return memo[f["p"]]

    n = 0
    for key, fs in sorted(fams.items()):
        if len(fs) < 2:
            continue
        sigs = defaultdict(list)
        for f in fs:
            sigs[sig(f, key)].append(f)
        n += len(fs)
        k = "repr-level family %s::%s %s x %s [%s]" % (key[1], key[2], key[3], key[4], key[0])
        if len(sigs) == 1:
            ks = next(iter(sigs))
            res.ok("R15.1b", cfgname, k, nontrivial=bool(ks), sample=dict(family=list(key), forms=len(fs), kernels=sorted(x.rsplit("::", 1)[-1] for x in ks)))
        else:
            groups = sorted(sigs.items(), key=lambda kv: len(kv[1]))
            minority, major = groups[0], groups[-1]
            diff = sorted(x.rsplit("::", 1)[-1] for x in set(minority[0]) ^ set(major[0]))
            res.fail("R15.1b", cfgname, k,
                     "%s reaches the module kernels %s while its %d sibling ownership forms reach %s (difference %s): for the operand shapes handled by that kernel this form computes its result by other code than `%s` does"
                     % (minority[1][0]["p"], sorted(x.rsplit("::", 1)[-1] for x in minority[0]), len(major[1]), sorted(x.rsplit("::", 1)[-1] for x in major[0]), diff, major[1][0]["p"]),
                     span_loc(minority[1][0]["sp"]))
    res.floor("R15.1b", cfgname, n, 50, "repr-level operator impl bodies")


VALUE_OF = {"AddAssign": "Add", "SubAssign": "Sub", "MulAssign": "Mul", "DivAssign": "Div", "RemAssign": "Rem",
            "BitAndAssign": "BitAnd", "BitOrAssign": "BitOr", "BitXorAssign": "BitXor", "ShlAssign": "Shl", "ShrAssign": "Shr",
            "DivRemAssign": "DivRem"}


def _r15_2(res, P, cfgname, F):
    by = defaultdict(list)
    for p, f in F.forms.items():
        if p in FORM_HELPERS:
            continue
        by[(f["crate"], trait_name(f), base_ty(f.get("self_ty", "")), base_ty(rhs_ty(f)))].append(f)
    n = 0
    for (crate, tn, a, b), fs in sorted(by.items()):
        if tn not in VALUE_OF:
            continue
        vfs = by.get((crate, VALUE_OF[tn], a, b))
        for f in fs:
            n += 1
            key = "%s for %s (rhs %s) [%s] %s" % (tn, a, b, crate, "ref" if rhs_ty(f).startswith("&") else "val")
            if not vfs:
                res.fail("R15.2", cfgname, key, "%s has no value family %s<%s> for %s to agree with" % (f["p"], VALUE_OF[tn], b, a), span_loc(f["sp"]))
                continue
            sa = F.signature(f["p"])
            sv = F.signature(vfs[0]["p"])
            if sa == sv:
                dele, kern = F.classify(f)
                mode = "delegating" if dele and not kern else ("hand-written" if kern else "trivial")
                res.ok("R15.2", cfgname, key, sample=dict(assign=f["p"], value=vfs[0]["p"], mode=mode, kernels=sorted(sa)[:4]))
            else:
                res.fail("R15.2", cfgname, key, "%s reaches kernels %s but its value form %s reaches %s" % (f["p"], sorted(sa)[:4], vfs[0]["p"], sorted(sv)[:4]), span_loc(f["sp"]))
    res.floor("R15.2", cfgname, n, 400, "assignment-form impl bodies")
    # hand-written float shift assignment vs value form: equal effect summaries
    if "dashu_float" in P.units:
        for op in ("Shl", "Shr"):
            v = next((f for f in P.fns("dashu_float") if trait_name(f) == op and "FBig" in f.get("self_ty", "") and f["name"] in ("shl", "shr")), None)
            a = next((f for f in P.fns("dashu_float") if trait_name(f) == op + "Assign" and "FBig" in f.get("self_ty", "")), None)
            if v is None or a is None:
                res.anchor("R15.2", cfgname, "float %s / %sAssign" % (op, op))
                continue
            ev, ea = effects(v), effects(a)
            key = "float %sAssign effect summary == %s" % (op, op)
            if ev == ea:
                res.ok("R15.2", cfgname, key, sample=dict(value=v["p"], assign=a["p"], effects=ev))
            else:
                res.fail("R15.2", cfgname, key, "effects of %s differ from its value form: assign %s vs value %s" % (a["p"], ea, ev), span_loc(a["sp"]))


def effects(f):
    """multiset of (field written, operator, guarded by which predicate calls) of a body"""
    S = sym.Sym(f)
    cfg = mir.cfg_of(f["mir"])
    out = []
    for i, j, s in mir.iter_stmts(f["mir"]):
        if s["k"] != "as":
            continue
        flds = [e["n"] for e in s["p"].get("p", []) if e.get("k") == "f"]
        if not flds:
            continue
        rv = S.rvalue(s["rv"])
        op = rv[1] if rv[0] == 'bin' else rv[0]
        if rv[0] == 'place' and rv[1][0] == 'bin':
            op = rv[1][1]
        op = op.replace("WithOverflow", "")
        g = sorted(set("%s%s" % ("" if c[2] else "!", c[1][1].rsplit("::", 1)[1]) for c in guards.constraints_at(S, cfg, i) if c[0] == 'bool' and c[1][0] == 'call'))
        out.append((".".join(flds), op, tuple(g)))
    return sorted(out)


def _r15_3(res, P, cfgname, F):
    n = 0
    for p, f in sorted(F.forms.items()):
        dele, kern = F.classify(f)
        tn = trait_name(f)
        base = VALUE_OF.get(tn, tn)
        for (cp, roots, bb, t) in dele + kern:
            # operand order: only judged when both operands are clean parameter roots
            if len(roots) < 2 or None in roots or set(roots) != {1, 2}:
                continue
            g = F.forms.get(cp)
            same_op = (g is not None and VALUE_OF.get(trait_name(g), trait_name(g)) == base) or (g is None and cp.endswith("::" + f["name"]))
            if not same_op:
                continue
            n += 1
            key = "operand order %s -> %s" % (p, norm(cp))
            if roots == [1, 2]:
                res.ok("R15.3", cfgname, key, nontrivial=base in NONCOMM)
            elif base in NONCOMM or tn in VALUE_OF:
                res.fail("R15.3", cfgname, key, "%s passes its operands swapped to %s although %s is not commutative" % (p, cp, base), span_loc(t["sp"]))
            else:
                res.ok("R15.3", cfgname, key + "|commutative-swap", nontrivial=False)
        # primitive forms are pure adapters: exactly one delegation, no kernel
        prim = base_ty(rhs_ty(f)) in PRIMS or base_ty(f.get("self_ty", "")) in PRIMS
        if prim and f["crate"] == "dashu_int" and base not in ("Shl", "Shr"):   # a shift amount is not a converted operand
            n += 1
            key = "pure adapter " + p
            if len(dele) == 1 and not kern:
                res.ok("R15.3", cfgname, key)
            else:
                res.fail("R15.3", cfgname, key, "primitive-operand form %s is not a pure adapter: %d delegations, kernels %s" % (p, len(dele), [k[0] for k in kern][:3]), span_loc(f["sp"]))
    res.floor("R15.3", cfgname, n, 1500, "delegation / kernel call sites judged")


# ownership-variant siblings outside the operator traits: same algorithm, one by value / one by
# reference (or lhs/rhs mirrored).  They must call the same kernels and hand the same decision terms
# to their shared callees.
SIBLINGS = [
    ("dashu_float::repr::Context::<R>::repr_round", "dashu_float::repr::Context::<R>::repr_round_ref", None),
    ("dashu_float::add::<impl dashu_float::repr::Context<R>>::repr_add_large_small",
     "dashu_float::add::<impl dashu_float::repr::Context<R>>::repr_add_small_large",
     ("dashu_float::add::<impl dashu_float::repr::Context<R>>::repr_round_sum", 4, "is_sub")),
    ("dashu_float::add::add_val_val", "dashu_float::add::add_ref_ref", None),
    ("dashu_float::add::add_val_ref", "dashu_float::add::add_ref_val", None),
    ("dashu_float::utils::split_digits", "dashu_float::utils::split_digits_ref", None),
]
SIB_ALIAS = [(re.compile(r"_ref$"), ""), (re.compile(r"dashu_float::utils::shl_digits_in_place"), "dashu_float::utils::shl_digits"),
             (re.compile(r"shr_digits_in_place"), "shr_digits"), (re.compile(r"split_bits_ref"), "split_bits")]
SIB_IGNORE = ("as core::clone::Clone>::clone", "core::mem::", "::deref", "as core::convert::", "core::ops::arith::", "core::ops::bit::",
              "core::cmp::", "core::panicking", "core::option::", "dashu_int::", "dashu_base::sign::")


def _sib_calls(f):
    out = set()
    for bb, t, fr in mir.iter_calls(f["mir"]):
        cp = fr and (fr.get("rp") or fr["p"])
        if not cp or any(x in cp for x in SIB_IGNORE):
            continue
        if any(m.startswith("debug_assert") for m in mir.span_macros(t.get("sp", ""))):
            continue
        k = norm(cp)
        for rx, rep in SIB_ALIAS:
            k = rx.sub(rep, k)
        out.add(k)
    return out


# by-reference / in-place twins of one arithmetic helper: same multiset of arithmetic steps
ARITH_SIBLINGS = [("dashu_float::utils::shl_digits", "dashu_float::utils::shl_digits_in_place")]


def _arith_skeleton(f):
    """multiset of the arithmetic steps of a helper: operator calls on big integers (assign forms and
    reference forms merged), named helper calls, primitive arithmetic; comparisons and clones dropped"""
    from collections import Counter
    c = Counter()
    for i, j, st in mir.iter_stmts(f["mir"]):
        if st["k"] == "as" and st["rv"]["k"] == "bin":
            op = st["rv"]["op"].replace("WithOverflow", "")
            if op not in ("Eq", "Ne", "Lt", "Le", "Gt", "Ge"):
                c["prim:" + op] += 1
    for bb, t, fr in mir.iter_calls(f["mir"]):
        cp = fr and (fr.get("rp") or fr["p"])
        if not cp or "clone" in cp or "core::panicking" in cp:
            continue
        m = re.search(r"core::ops::(?:arith|bit)::(\w+?)(?:Assign)?<?", cp)
        if m:
            c["op:" + m.group(1).replace("Assign", "")] += 1
        else:
            c["call:" + cp.rsplit("::", 1)[-1]] += 1
    return c


def _r15_5(res, P, cfgname):
    fns = {f["p"]: f for f in P.fns("dashu_float")}
    for a, b in ARITH_SIBLINGS:
        fa, fb = fns.get(a), fns.get(b)
        key = "%s ~ %s (arithmetic steps)" % (a.rsplit("::", 1)[1], b.rsplit("::", 1)[1])
        if fa is None or fb is None:
            res.anchor("R15.5", cfgname, "sibling pair " + key)
            continue
        sa, sb = _arith_skeleton(fa), _arith_skeleton(fb)
        if sa == sb:
            res.ok("R15.5", cfgname, key, sample=dict(pair=[a, b], steps=dict(sa)))
        else:
            diff = {k: (sa[k], sb[k]) for k in set(sa) | set(sb) if sa[k] != sb[k]}
            res.fail("R15.5", cfgname, key, "the by-reference and in-place twins %s / %s perform different arithmetic steps (step: count in the first vs the second): %s — one of them handles some bases differently" % (a.rsplit("::", 1)[1], b.rsplit("::", 1)[1], diff), span_loc(fb["sp"]))
    for a, b, shared in SIBLINGS:
        fa, fb = fns.get(a), fns.get(b)
        key = "%s ~ %s" % (a.rsplit("::", 1)[1], b.rsplit("::", 1)[1])
        if fa is None or fb is None:
            res.anchor("R15.5", cfgname, "sibling pair " + key)
            continue
        ca, cb = _sib_calls(fa), _sib_calls(fb)
        if ca != cb:
            res.fail("R15.5", cfgname, key, "sibling kernels %s and %s do not call the same functions: only in the first %s, only in the second %s" % (a, b, sorted(ca - cb)[:3], sorted(cb - ca)[:3]), span_loc(fb["sp"]))
            continue
        if shared:
            callee, idx, what = shared
            terms = []
            for f in (fa, fb):
                S = sym.Sym(f)
                for bb, t, fr in mir.iter_calls(f["mir"]):
                    if fr and (fr.get("rp") or fr["p"]) == callee:
                        terms.append(sym.term_str(strip_bb(S.operand(t["a"][idx])), 400))
            if len(terms) != 2:
                res.anchor("R15.5", cfgname, "call of %s in both of %s" % (callee, key))
                continue
            if terms[0] != terms[1]:
                res.fail("R15.5", cfgname, key + "|" + what, "mirror kernels disagree on `%s`: %s computes %s, %s computes %s" % (what, a.rsplit("::", 1)[1], terms[0][:160], b.rsplit("::", 1)[1], terms[1][:160]), span_loc(fb["sp"]))
                continue
        res.ok("R15.5", cfgname, key, sample=dict(pair=[a, b], shared_calls=sorted(ca)[:6]))


def _r15_4(res, P, cfgname):
    want = [("dashu_int::ubig::UBig", "dashu_int::repr::Repr"), ("dashu_int::ibig::IBig", "dashu_int::repr::Repr"),
            ("dashu_ratio::rbig::RBig", "dashu_ratio::repr::Repr"), ("dashu_ratio::rbig::Relaxed", "dashu_ratio::repr::Repr"),
            ("dashu_float::fbig::FBig<R, B>", "dashu_float::repr::Repr<B>")]
    for ty, inner in want:
        crate = ty.split("::", 1)[0]
        if crate not in P.units:
            continue
        for m in ("clone", "clone_from"):
            f = next((g for g in P.fns(crate) if g["p"] == "<%s as core::clone::Clone>::%s" % (ty, m)), None)
            key = "%s::%s delegates field-wise" % (ty, m)
            if f is None:
                if m == "clone_from" and ty in ("dashu_ratio::rbig::RBig", "dashu_ratio::rbig::Relaxed"):
                    res.ok("R15.4", cfgname, key + " (default clone_from = *self = clone())", nontrivial=False)
                    continue
                res.anchor("R15.4", cfgname, "Clone::%s for %s" % (m, ty))
                continue
            cal = [(fr.get("rp") or fr["p"]) for bb, t, fr in mir.iter_calls(f["mir"]) if fr]
            ok = any(c == "<%s as core::clone::Clone>::%s" % (inner, m) for c in cal)
            if ok:
                res.ok("R15.4", cfgname, key, sample=dict(function=f["p"], calls=cal))
            else:
                res.fail("R15.4", cfgname, key, "%s does not delegate to <%s as Clone>::%s (calls %s)" % (f["p"], inner, m, cal), span_loc(f["sp"]))


# ---------------------------------------------------------------------------------------------
# R15.6  sign discipline of the shared add/sub kernels.  `a - b` is `a + rhs_sign * b` with
# rhs_sign = Negative; the owned-rhs forms negate b first and pass Positive, the borrowed-rhs forms pass
# Negative.  The forms agree only if rhs_sign multiplies values that come from `rhs` and nothing else:
# a factor applied to a value derived from `lhs` changes `a - &b` but not `a - b`.
def _vroots(t, fn, du, S, depth=0, seen=None):
    """argument locals a value term is rooted in, following the value (first) operand of calls, places,
    references, casts, and every definition of a multiply-defined local"""
    seen = seen if seen is not None else set()
    t = strip_bb(t)
    while isinstance(t, tuple) and depth < 40:
        depth += 1
        if t[0] in ('ref', 'refmut', 'place'):
            t = t[1]
        elif t[0] == 'cast':
            t = t[2]
        elif t[0] == 'call' and t[2]:
            t = t[2][0]
        else:
            break
    if isinstance(t, tuple) and t[0] == 'arg':
        return {t[1]}
    if isinstance(t, tuple) and t[0] == 'var' and t[1] not in seen:
        seen.add(t[1])
        out = set()
        for (bb, idx, node) in du.defs.get(t[1], []):
            if idx == "t":
                if node["a"]:
                    out |= _vroots(S.operand(node["a"][0]), fn, du, S, depth + 1, seen)
            elif node["k"] == "as":
                out |= _vroots(S.rvalue(node["rv"]), fn, du, S, depth + 1, seen)
        return out
    return set()


def _r15_6(res, P, cfgname):
    res.rule("R15.6", "in the float add/sub kernels the `rhs_sign` factor multiplies only values rooted in the `rhs` parameter (a factor on an lhs-derived value makes the borrowed-rhs forms of `-` differ from the owned ones)")
    nf = ns = 0
    for f in P.fns("dashu_float"):
        b = f.get("mir")
        if not b or "::add::" not in f["p"]:
            continue
        names = {v["n"]: v["p"]["l"] for v in b.get("vars", []) if not v["p"].get("p") and v["p"]["l"] <= b["argc"]}
        if "rhs_sign" not in names or "rhs" not in names or "lhs" not in names:
            continue
        nf += 1
        sg, rhs, lhs = names["rhs_sign"], names["rhs"], names["lhs"]
        S = sym.Sym(f)
        du = mir.defuse_of(b)
        k = 0
        for bb, t, fr in mir.iter_calls(b):
            cp = fr and (fr.get("rp") or fr["p"])
            if not cp or "sign::Sign" not in cp or not ("arith::Mul" in cp or "arith::MulAssign" in cp):
                continue
            args = [S.operand(a) for a in t["a"]]
            roots = [_vroots(a, f, du, S) for a in args]
            if not any(r == {sg} for r in roots):
                continue
            k += 1
            ns += 1
            other = [r for r in roots if r != {sg}]
            other = other[0] if other else set()
            key = "%s sign-mul #%d" % (f["p"], k)
            if other == {rhs}:
                res.ok("R15.6", cfgname, key, sample=dict(function=f["p"], call=cp[-60:], operand_rooted_in="rhs"))
            else:
                which = "lhs" if lhs in other else ("args %s" % sorted(other) if other else "no parameter")
                res.fail("R15.6", cfgname, key, "%s multiplies a value rooted in %s by rhs_sign (`%s`): only rhs-derived values carry the sign of the subtraction; `a - &b` / Context::sub pass Negative here while `a - b` passes Positive" % (f["p"], which, " , ".join(sym.term_str(a, 50) for a in args)), span_loc(t["sp"]))
    res.floor("R15.6", cfgname, nf, 6, "add kernels with lhs / rhs / rhs_sign parameters")
    res.floor("R15.6", cfgname, ns, 12, "rhs_sign multiplications")


# ---------------------------------------------------------------------------------------------
# R15.4b  hand-written clone_from is complete: `a.clone_from(&b)` must leave `a` equal to `b.clone()`.
# On every path to the return, either *self is assigned as a whole, or every field of the matched
# variant is assigned / handed to a nested clone_from.  A field that is skipped on one path (the ring
# reference of a modular value, a precision) keeps its old value: the "clone" then differs from the source.
CLONE_FROM_EXEMPT = {
    "<dashu_int::repr::Repr as core::clone::Clone>::clone_from": "storage type with in-place buffer reuse: decided by R17.7 (sign), R17.8 (allocation pairing) and R17.2 (variant guards)",
    "<dashu_int::buffer::Buffer as core::clone::Clone>::clone_from": "storage type: ptr/capacity are kept on purpose, bounds decided by R17.5",
}


def _field_key(projs):
    """(variant or None, field) of the first field projection after the leading deref"""
    ps = [p for p in projs]
    if not ps or ps[0] != '*':
        return None
    ps = ps[1:]
    if not ps:
        return "WHOLE"
    var = None
    if ps[0].startswith('as:'):
        var = ps[0][3:]
        ps = ps[1:]
    if ps and ps[0].startswith('.'):
        return (var, ps[0][1:])
    return None


def _r15_4b(res, P, cfgname):
    res.rule("R15.4b", "every hand-written Clone::clone_from assigns *self as a whole or every field of the matched variant (directly or by a nested clone_from) on every path to its return")
    n = 0
    for f in P.fns():
        if not f["crate"].startswith("dashu") or not f["p"].endswith("as core::clone::Clone>::clone_from") or not f.get("mir"):
            continue
        if f["p"] in CLONE_FROM_EXEMPT:
            res.ok("R15.4b", cfgname, f["p"] + " (decided elsewhere)", nontrivial=False)
            continue
        ty = (f.get("self_ty") or "").split("<")[0]
        adt = P.adt.get(ty)
        if adt is None:
            continue
        n += 1
        b = f["mir"]
        S = sym.Sym(f)
        cfg = mir.cfg_of(b)
        whole, writes = set(), defaultdict(set)

        def note(term, bb):
            t = term
            while isinstance(t, tuple) and t[0] in ('ref', 'refmut'):
                t = t[1]
            if isinstance(t, tuple) and t[0] == 'place' and t[1] == ('arg', 1):
                k = _field_key(t[2])
                if k == "WHOLE":
                    whole.add(bb)
                elif k:
                    writes[k].add(bb)
        for i, j, s in mir.iter_stmts(b):
            if s["k"] == "as" and s["p"].get("p"):
                note(S.place(s["p"]), i)
        for bb, t, fr in mir.iter_calls(b):
            cp = fr and (fr.get("rp") or fr["p"])
            if cp and cp.endswith("::clone_from") and t["a"]:
                note(S.operand(t["a"][0]), bb)
            # a call writing its result into *self or a field of it
            d = t.get("d")
            if d and d.get("p"):
                note(S.place(d), bb)
        variants = {v["n"]: v for v in adt["variants"]}
        need = []
        if adt["kind"] == "Enum":
            for (var, fld) in list(writes):
                if var in variants:
                    for fl in variants[var]["fields"]:
                        need.append((var, fl["n"]))
        else:
            for fl in adt["variants"][0]["fields"]:
                need.append((None, fl["n"]))
        need = sorted(set(need), key=str)
        bad = []
        for k in need:
            blocks = whole | writes.get(k, set())
            if not blocks or not cfg.must_pass(blocks):
                bad.append(k)
        key = f["p"] + " completeness"
        if bad:
            res.fail("R15.4b", cfgname, key, "%s reaches its return on a path that neither assigns *self nor updates field(s) %s: after a.clone_from(&b) that part of `a` keeps its old value" % (
                f["p"], ", ".join(("%s.%s" % (v, fl)) if v else fl for v, fl in bad)), span_loc(f["sp"]))
        else:
            res.ok("R15.4b", cfgname, key, nontrivial=bool(need), sample=dict(function=f["p"], fields=[("%s.%s" % (v, fl)) if v else fl for v, fl in need], whole_write_blocks=len(whole)))
    res.floor("R15.4b", cfgname, n, 5, "hand-written clone_from impls")


# ---------------------------------------------------------------------------------------------
# R15.7  the result context of a binary float operator is Context::max(lhs.context, rhs.context): one
# context from each operand (the analogue of R13.1's "one ring from each operand").  Taking both from the
# same operand compiles, and differs only when the operands have different precisions, in that one form.
def _r15_7(res, P, cfgname):
    res.rule("R15.7", "every Context::max(a, b) takes its two contexts from two different operands")
    n = 0
    for f in P.fns():
        if f["crate"] not in ("dashu_float", "dashu_ratio") or not f.get("mir"):
            continue
        S = du = None
        k = 0
        for bb, t, fr in mir.iter_calls(f["mir"]):
            cp = fr and (fr.get("rp") or fr["p"])
            if not cp or not cp.endswith("Context::<R>::max") or len(t["a"]) != 2:
                continue
            if S is None:
                S, du = sym.Sym(f), mir.defuse_of(f["mir"])
            k += 1
            n += 1
            r = [_vroots(S.operand(a), f, du, S) for a in t["a"]]
            key = "%s Context::max #%d" % (f["p"], k)
            if r[0] and r[1] and r[0] != r[1]:
                res.ok("R15.7", cfgname, key, sample=dict(function=f["p"], operands=[sorted(r[0]), sorted(r[1])]))
            else:
                res.fail("R15.7", cfgname, key, "%s computes Context::max(%s, %s): both contexts come from the same operand, the other operand's precision is ignored in this form" % (
                    f["p"], sym.term_str(S.operand(t["a"][0]), 40), sym.term_str(S.operand(t["a"][1]), 40)), span_loc(t["sp"]))
    res.floor("R15.7", cfgname, n, 15, "Context::max call sites")


LEVEL = LEVEL + ' Also (R15.4b) hand-written clone_from impls assign every field on every path, (R15.5) mirrored / ownership-variant sibling kernels agree, (R15.6) the rhs_sign factor of the shared add/sub kernels multiplies only rhs-derived values, (R19.2, shared) no step inside a debug assertion.'
TECHNIQUE = 'sibling agreement over all operator impl bodies: canonical kernel signatures, effect summaries of assign forms, operand-order and pure-adapter rules, mirror comparison of sibling kernels, value-root dataflow for the sign factor, clone_from completeness'
LEVEL = LEVEL + ' Also (R15.7) Context::max takes one context from each operand; (R17.7/R17.8, shared) Repr::clone_from.'
LEVEL = LEVEL + ' (R01.5, shared) swap <=> negate in the shared signed kernel.'
