"""C17 continued: R17.5 bounded raw accesses in Buffer, R17.6 debug-only obligations pushed to call
sites, R17.7 sign typestate of UBig constructions, R17.9 bump allocator."""
from . import mir, sym, guards
from .mir import span_loc

SELF = ('arg', 1)


def fld(name, base=SELF):
    return ('place', base, ('*', '.' + name))


LEN = fld('len')
CAP = fld('capacity')
PTR = fld('ptr')


def norm_rel(op, a, b):
    """normalise to (op, a, b) with op in Lt/Le/Eq/Ne (swap sides for Gt/Ge)"""
    if op == 'Gt':
        return ('Lt', b, a)
    if op == 'Ge':
        return ('Le', b, a)
    return (op, a, b)


def rels_at(S, cfg, bb):
    out = set()
    for c in guards.constraints_at(S, cfg, bb):
        if c[0] == 'rel':
            out.add(norm_rel(c[1], sym.strip_casts(c[2]), sym.strip_casts(c[3])))
    return out


def slice_len_terms(arg):
    """terms that denote the length of the slice argument `arg`"""
    return {('un', 'PtrMetadata', arg), ('call', 'core::slice::<impl [T]>::len', (arg,))}


def strip_bb(t):
    """drop the bb component of call terms so that terms compare structurally"""
    if not isinstance(t, tuple):
        return t
    if t and t[0] == 'call':
        return ('call', t[1], tuple(strip_bb(a) for a in t[2]))
    return tuple(strip_bb(x) if isinstance(x, tuple) else x for x in t)


def is_len_of(t, arg):
    t = strip_bb(t)
    return t in slice_len_terms(arg)


def writes_between(S, cfg, guard_dst, op_bb, places):
    """assignments to any of `places` (terms) in blocks on a path guard_dst ->* op_bb (excluding the
    op block's own later statements)"""
    body = S.body
    fwd = cfg.reach_from(guard_dst)
    # blocks that can reach op_bb
    back = {op_bb}
    st = [op_bb]
    while st:
        b = st.pop()
        for p in cfg.pred[b]:
            if p not in back:
                back.add(p)
                st.append(p)
    mid = (fwd & back) - {op_bb}
    hits = []
    for b in mid:
        for s in body["bbs"][b]["s"]:
            if s["k"] == "as" and s["p"].get("p"):
                t = S.place(s["p"])
                if t in places:
                    hits.append((b, sym.term_str(t)))
    return hits


# ---- R17.5 rows ---------------------------------------------------------------------------------
# function -> (description of the extent, predicate over (rels, S, fn) -> reason or None)

def _need(rel):
    def f(rels, S, fn):
        return ("guard %s %s %s" % (sym.term_str(rel[1]), rel[0], sym.term_str(rel[2]))) if strip_bb(rel) in {strip_bb(r) for r in rels} else None
    return f


def _push_slice(rels, S, fn):
    for (op, a, b) in rels:
        if op == 'Le' and is_len_of(a, ('arg', 2)) and strip_bb(b) == ('bin', 'Sub', CAP, LEN):
            return "guard words.len() <= capacity - len"
    return None


def _clone_from_slice(rels, S, fn):
    for (op, a, b) in rels:
        if op == 'Le' and is_len_of(a, ('arg', 2)) and strip_bb(b) == CAP:
            return "guard capacity >= src.len()"
    return None


def _buffer_clone_from(rels, S, fn):
    src_len = ('place', ('arg', 2), ('*', '.len'))
    for (op, a, b) in rels:
        if op == 'Le' and strip_bb(a) == src_len and strip_bb(b) == CAP:
            return "guard self.capacity >= src.len"
    return None


def _reallocate_raw(rels, S, fn):
    for (op, a, b) in rels:
        if op == 'Le' and strip_bb(b) == ('arg', 2):
            a2 = strip_bb(a)
            if a2 == LEN or a2 == ('call', 'dashu_int::buffer::Buffer::len', (SELF,)):
                return "guard capacity >= self.len()"
    return None


N = ('arg', 2)
ROWS = {
    "dashu_int::buffer::Buffer::push": ("write of 1 word at ptr+len", _need(('Lt', LEN, CAP)), [LEN, CAP]),
    "dashu_int::buffer::Buffer::push_repeat": ("write of n words at ptr+len", _need(('Le', N, ('bin', 'Sub', CAP, LEN))), [CAP]),
    "dashu_int::buffer::Buffer::push_zeros_front": ("move len words by n, write n words", _need(('Le', N, ('bin', 'Sub', CAP, LEN))), [LEN, CAP]),
    "dashu_int::buffer::Buffer::push_slice": ("copy of words.len() words to ptr+len", _push_slice, [LEN, CAP]),
    "dashu_int::buffer::Buffer::pop_zeros": ("reads stay inside [0, len)", None, []),     # decided by _len_positive_dataflow (len is written inside the loop)
    "dashu_int::buffer::Buffer::erase_front": ("move of len-n words from ptr+n", _need(('Le', N, LEN)), [LEN]),
    "dashu_int::buffer::Buffer::lowest_dword": ("read of words 0 and 1", _need(('Le', ('const', 2, 'usize'), LEN)), [LEN]),
    "dashu_int::buffer::Buffer::lowest_dword_mut": ("&mut of words 0 and 1", _need(('Le', ('const', 2, 'usize'), LEN)), [LEN]),
    "dashu_int::buffer::Buffer::clone_from_slice": ("copy of src.len() words to ptr", _clone_from_slice, [CAP]),
    "<dashu_int::buffer::Buffer as core::clone::Clone>::clone_from": ("copy of src.len words to ptr", _buffer_clone_from, [CAP]),
    "dashu_int::buffer::Buffer::reallocate_raw": ("realloc to capacity words", _reallocate_raw, []),
}
# extent of the copy itself: the count handed to copy_nonoverlapping must be the very quantity the guard
# bounds (the source's length), and the source pointer must belong to the same source
COPY_COUNT = {
    "dashu_int::buffer::Buffer::clone_from_slice": lambda c: is_len_of(c, ('arg', 2)),
    "dashu_int::buffer::Buffer::push_slice": lambda c: is_len_of(c, ('arg', 2)),
    "<dashu_int::buffer::Buffer as core::clone::Clone>::clone_from": lambda c: strip_bb(c) == ('place', ('arg', 2), ('*', '.len')) or _len_of_buffer_deref(c, ('arg', 2)),
}
def _len_of_buffer_deref(c, buf):
    """`(&*buf).len()` where buf: &Buffer — Deref yields from_raw_parts(ptr, buf.len) (R17.5 struct row), so this is buf.len"""
    c = strip_bb(c)
    if c[0] == 'call' and c[1] == "core::slice::<impl [T]>::len" and c[2]:
        x = strip_bb(c[2][0])
        while isinstance(x, tuple) and x[0] in ('ref', 'refmut'):
            x = strip_bb(x[1])
        if isinstance(x, tuple) and x[0] == 'place' and x[2] == ('*',):
            x = strip_bb(x[1])
        if isinstance(x, tuple) and x[0] == 'call' and x[1].endswith("Buffer as core::ops::deref::Deref>::deref") and x[2]:
            y = strip_bb(x[2][0])
            while isinstance(y, tuple) and y[0] in ('ref', 'refmut'):
                y = strip_bb(y[1])
            if isinstance(y, tuple) and y[0] == 'place' and y[2] == ('*',):
                y = strip_bb(y[1])
            return y == buf
    return False


RAW_OPS = {"core::ptr::write", "core::ptr::read", "core::ptr::copy", "core::ptr::copy_nonoverlapping",
           "core::ptr::mut_ptr::<impl *mut T>::add", "core::ptr::mut_ptr::<impl *mut T>::sub",
           "core::slice::raw::from_raw_parts", "core::slice::raw::from_raw_parts_mut", "alloc::alloc::realloc",
           "core::ptr::mut_ptr::<impl *mut T>::write", "core::ptr::mut_ptr::<impl *mut T>::read",
           "core::ptr::mut_ptr::<impl *mut T>::copy_from"}


def _len_positive_dataflow(fn, S, cfg, op_bb):
    """`self.len > 0` holds at the entry of block op_bb on *every* path, taking writes to self.len into account:
    forward must-analysis; an edge whose fact implies len != 0 establishes it, a block that assigns self.len
    (or hands &mut self to a call) destroys it.  A guard checked once before a loop that decrements len does not
    cover the reads of later iterations."""
    body = fn["mir"]
    good_edge = set()
    for a, b, fact in S.edge_facts():
        for c in guards.constraints(fact):
            if c[0] == 'rel':
                _, op, A, B = c
                A2, B2 = strip_bb(sym.strip_casts(A)), strip_bb(sym.strip_casts(B))
                if (A2 == LEN and B2[0] == 'const' and ((op in ('Gt', 'Ne') and B2[1] == 0) or (op == 'Ge' and B2[1] >= 1))) or \
                   (B2 == LEN and A2[0] == 'const' and ((op in ('Lt', 'Ne') and A2[1] == 0) or (op == 'Le' and A2[1] >= 1))):
                    good_edge.add((a, b))
            elif c[0] == 'unary' and strip_bb(sym.strip_casts(c[1])) == LEN:
                try:
                    if not c[2](0):
                        good_edge.add((a, b))
                except Exception:
                    pass
    writes = set()
    for i, bb in enumerate(body["bbs"]):
        for st in bb["s"]:
            if st["k"] == "as" and st["p"]["l"] == 1 and any(e.get("k") == "f" and e.get("n") == "len" for e in st["p"].get("p", [])):
                writes.add(i)
    n = len(body["bbs"])
    reach = cfg.reachable()
    IN = {i: True for i in range(n)}
    IN[0] = False
    preds = {i: [] for i in range(n)}
    for a in range(n):
        for b in cfg.succ[a]:
            preds[b].append(a)
    changed = True
    while changed:
        changed = False
        for b in range(n):
            if b == 0 or b not in reach:
                continue
            v = True
            ps = [p_ for p_ in preds[b] if p_ in reach]
            if not ps:
                continue
            for p_ in ps:
                out = True if (p_, b) in good_edge else (IN[p_] and p_ not in writes)
                v = v and out
            if v != IN[b]:
                IN[b] = v
                changed = True
    return "self.len > 0 on every path into the read, writes to self.len accounted for" if IN.get(op_bb) else None


def raw_op_blocks(fn):
    out = []
    S = sym.Sym(fn)
    for bb, t, f in mir.iter_calls(fn["mir"]):
        if f and (f.get("rp") or f["p"]) in RAW_OPS:
            out.append((bb, f.get("rp") or f["p"], t))
    # raw derefs
    for i, j, s in mir.iter_stmts(fn["mir"]):
        found = []
        def chk(p):
            if any(e.get("raw") for e in p.get("p", [])):
                found.append(p)
        mir.walk_places(s, chk)
        if found:
            out.append((i, "rawderef", s))
    return S, out


def _r17_5(res, P, cfgname):
    n = 0
    for path, (extent, pred, stable) in ROWS.items():
        fns = [f for f in P.fns("dashu_int") if f["p"] == path]
        if not fns:
            res.anchor("R17.5", cfgname, "fn " + path)
            continue
        fn = fns[0]
        S, ops = raw_op_blocks(fn)
        cfg = mir.cfg_of(fn["mir"])
        if not ops:
            res.anchor("R17.5", cfgname, "no raw operation left in " + path)
            continue
        for bb, opname, node in ops:
            n += 1
            key = "%s|%s" % (path, opname)
            rels = rels_at(S, cfg, bb)
            if pred is None:
                reason = _len_positive_dataflow(fn, S, cfg, bb)
            else:
                reason = pred(rels, S, fn)
            if reason is None:
                res.fail("R17.5", cfgname, key,
                         "raw access `%s` in %s (%s) is not dominated by its release-surviving bound check; facts here: %s"
                         % (opname, path, extent, sorted("%s %s %s" % (sym.term_str(a, 60), o, sym.term_str(b, 60)) for o, a, b in rels)[:6]),
                         span_loc(node.get("sp", "")))
                continue
            if opname == "core::ptr::copy_nonoverlapping" and path in COPY_COUNT and node.get("k") == "call":
                cnt = S.operand(node["a"][2])
                if not COPY_COUNT[path](cnt):
                    res.fail("R17.5", cfgname, key + "|count",
                             "copy_nonoverlapping in %s copies `%s` words, but the guard on this path bounds the source's length: the count must be the guarded quantity (reading past the source / writing past the capacity otherwise)" % (path, sym.term_str(cnt, 60)),
                             span_loc(node.get("sp", "")))
                    continue
            res.ok("R17.5", cfgname, key, sample=dict(function=path, op=opname, extent=extent, discharge=reason))
    # form (ii)/(iii) rows: structural equalities between the extent and the allocation / len field
    n += _r17_5_struct(res, P, cfgname)
    res.floor("R17.5", cfgname, n, 30, "raw accesses in Buffer")


def _find(P, path, crate="dashu_int"):
    for f in P.fns(crate):
        if f["p"] == path:
            return f
    return None


def _r17_5_struct(res, P, cfgname):
    n = 0
    # Deref / DerefMut: from_raw_parts(self.ptr.as_ptr(), self.len)
    for path, callee in (("<dashu_int::buffer::Buffer as core::ops::deref::Deref>::deref", "core::slice::raw::from_raw_parts"),
                         ("<dashu_int::buffer::Buffer as core::ops::deref::DerefMut>::deref_mut", "core::slice::raw::from_raw_parts_mut")):
        fn = _find(P, path)
        if fn is None:
            res.anchor("R17.5", cfgname, "fn " + path)
            continue
        S = sym.Sym(fn)
        hit = False
        for bb, t, f in mir.iter_calls(fn["mir"]):
            if f and (f.get("rp") or f["p"]) == callee:
                hit = True
                n += 1
                a0, a1 = strip_bb(S.operand(t["a"][0])), strip_bb(S.operand(t["a"][1]))
                ok = a1 == LEN and sym.contains(a0, lambda s: s == PTR)
                key = "%s|%s(ptr, len)" % (path, callee)
                if ok:
                    res.ok("R17.5", cfgname, key, sample=dict(function=path, op=callee, extent="[0, self.len) relying on len <= capacity (R17.3 writer set)"))
                else:
                    res.fail("R17.5", cfgname, key, "%s in %s must take exactly (self.ptr, self.len); got (%s, %s)" % (callee, path, sym.term_str(a0), sym.term_str(a1)), span_loc(t["sp"]))
        if not hit:
            res.anchor("R17.5", cfgname, "call of %s in %s" % (callee, path))
    # as_full_slice (zeroize): (ptr, capacity)
    fn = _find(P, "dashu_int::buffer::Buffer::as_full_slice")
    if fn is not None:
        S = sym.Sym(fn)
        for bb, t, f in mir.iter_calls(fn["mir"]):
            if f and (f.get("rp") or f["p"]) == "core::slice::raw::from_raw_parts_mut":
                n += 1
                a1 = strip_bb(S.operand(t["a"][1]))
                key = "dashu_int::buffer::Buffer::as_full_slice|from_raw_parts_mut(ptr, capacity)"
                if a1 == CAP:
                    res.ok("R17.5", cfgname, key)
                else:
                    res.fail("R17.5", cfgname, key, "as_full_slice must expose exactly self.capacity words, got %s" % sym.term_str(a1), span_loc(t["sp"]))
    # Clone::clone: allocate(self.len) then copy self.len words
    path = "<dashu_int::buffer::Buffer as core::clone::Clone>::clone"
    fn = _find(P, path)
    if fn is None:
        res.anchor("R17.5", cfgname, "fn " + path)
    else:
        S = sym.Sym(fn)
        alloc_arg = None
        for bb, t, f in mir.iter_calls(fn["mir"]):
            cp = f and (f.get("rp") or f["p"])
            if cp == "dashu_int::buffer::Buffer::allocate":
                alloc_arg = strip_bb(S.operand(t["a"][0]))
        for bb, t, f in mir.iter_calls(fn["mir"]):
            cp = f and (f.get("rp") or f["p"])
            if cp == "core::ptr::copy_nonoverlapping":
                n += 1
                cnt = strip_bb(S.operand(t["a"][2]))
                key = path + "|copy_nonoverlapping count == allocate arg"
                if alloc_arg is not None and cnt == alloc_arg == LEN:
                    res.ok("R17.5", cfgname, key, sample=dict(function=path, extent="copies self.len words into Buffer::allocate(self.len) (default_capacity(n) >= n)"))
                else:
                    res.fail("R17.5", cfgname, key, "Buffer::clone copies %s words into a buffer allocated for %s" % (sym.term_str(cnt), sym.term_str(alloc_arg) if alloc_arg else None), span_loc(t["sp"]))
    # default_capacity(n) >= n: body is (n + n/8 + 2).min(MAX)  -- check the term shape has n as an addend
    fn = _find(P, "dashu_int::buffer::Buffer::default_capacity")
    if fn is None:
        res.anchor("R17.5", cfgname, "fn default_capacity")
    else:
        S = sym.Sym(fn)
        n += 1
        ret = strip_bb(S.local(0))
        txt = sym.term_str(ret, 400)

        def addends(t):
            t = sym.strip_casts(t)
            if t[0] == 'bin' and t[1] in ('Add', 'AddWithOverflow', 'AddUnchecked'):
                return addends(t[2]) + addends(t[3])
            if t[0] == 'place' and t[2] == ('.0',) and t[1][0] == 'bin' and 'Add' in t[1][1]:
                return addends(t[1][2]) + addends(t[1][3])
            return [t]
        def padded_ok(x):
            ad = addends(x)
            consts = [a[1] for a in ad if a[0] == 'const' and isinstance(a[1], int)]
            return ('arg', 1) in ad and sum(consts) >= 2 and all(a == ('arg', 1) or a[0] == 'const' or (a[0] == 'bin' and a[1] == 'Div' and a[2] == ('arg', 1)) for a in ad)
        ok = False
        if ret[0] == 'call' and 'min' in ret[1]:
            ok = padded_ok(ret[2][0])
        elif ret[0] == 'var':
            # the same clamp written as an if-expression: one definition is the padded sum, the other the cap
            defs = [strip_bb(S.rvalue(nd["rv"])) for (_b, ix, nd) in S.du.defs.get(ret[1], []) if ix != 't' and nd.get("k") == "as" and not nd["p"].get("p")]
            ok = len(defs) == 2 and any(padded_ok(d) for d in defs) and any(sym.strip_casts(d)[0] == 'const' for d in defs)
        key = "dashu_int::buffer::Buffer::default_capacity >= n + 2"
        if ok:
            res.ok("R17.5", cfgname, key, sample=dict(function="default_capacity", term=txt))
        else:
            res.fail("R17.5", cfgname, key, "default_capacity(n) is no longer of the form min(n + n/k + c, MAX) with c >= 2: %s" % txt, span_loc(fn["sp"]))
    # into_boxed_slice: from_raw_parts_mut(new_ptr, me.len) where new_ptr = realloc(.., Layout::array(me.len).size())
    path = "dashu_int::buffer::Buffer::into_boxed_slice"
    fn = _find(P, path)
    if fn is None:
        res.anchor("R17.5", cfgname, "fn " + path)
    else:
        S = sym.Sym(fn)
        cfg = mir.cfg_of(fn["mir"])
        for bb, t, f in mir.iter_calls(fn["mir"]):
            cp = f and (f.get("rp") or f["p"])
            if cp == "core::slice::raw::from_raw_parts_mut":
                n += 1
                cnt = S.operand(t["a"][1])
                ptr = S.operand(t["a"][0])
                lay = [c for c in sym.calls_in(ptr) if c[1] == "alloc::alloc::realloc"]
                key = path + "|from_raw_parts_mut len == realloc'd size"
                ok = False
                if lay:
                    size = lay[0][2][2]
                    arr = [c for c in sym.calls_in(size) if "Layout" in c[1] and "array" in c[1]]
                    ok = bool(arr) and strip_bb(arr[0][2][0]) == strip_bb(cnt)
                # the len == 0 early return (realloc with size 0 is UB)
                rels = rels_at(S, cfg, bb)
                nz = any(op == 'Ne' and strip_bb(b) == ('const', 0, 'usize') or (op == 'Ne' and strip_bb(a) == ('const', 0, 'usize')) for op, a, b in rels)
                if ok and nz:
                    res.ok("R17.5", cfgname, key, sample=dict(function=path, extent="slice of me.len words over a block realloc'd to Layout::array(me.len); len != 0 on this edge"))
                else:
                    res.fail("R17.5", cfgname, key, "into_boxed_slice: slice length %s must equal the reallocated size and be non-zero (same-size=%s, nonzero-guard=%s)" % (sym.term_str(cnt), ok, nz), span_loc(t["sp"]))
    return n


# ---- R17.6 ---------------------------------------------------------------------------------------
DEBUG_ONLY = {
    "dashu_int::primitive::highest_dword": 2,
    "dashu_int::primitive::lowest_dword": 2,
    "dashu_int::primitive::split_hi_word": 2,
    "dashu_int::shift::shr_in_place_one_word": 1,
}


def _min_len_known(S, cfg, bb, arg_term, need, P, fn):
    """is len(arg) >= need established at this call site by shape?"""
    t = sym.strip_refs(arg_term) if arg_term[0] in ('ref', 'refmut') else arg_term
    t0 = strip_bb(arg_term)
    # (a) a RefLarge / Large binding or a Buffer deref: len >= 3 by the canonical-form invariant
    txt = sym.term_str(arg_term, 600)
    for s_ in sym.subterms(arg_term):
        if isinstance(s_, tuple) and s_[0] == 'place':
            if any(p in ('as:RefLarge', 'as:Large') for p in s_[2]):
                return "binding of a RefLarge/Large variant (len >= 3 by R17.2/R17.3)"
        if isinstance(s_, tuple) and s_[0] == 'call' and s_[1] in ("<dashu_int::buffer::Buffer as core::ops::deref::Deref>::deref", "<dashu_int::buffer::Buffer as core::ops::deref::DerefMut>::deref_mut"):
            pass
    # (b) explicit dominating length test on the same slice
    for c in guards.constraints_at(S, cfg, bb):
        if c[0] != 'unary':
            continue
        X = strip_bb(sym.strip_casts(c[1]))
        if X[0] == 'un' and X[1] == 'PtrMetadata' or (X[0] == 'call' and X[1] == 'core::slice::<impl [T]>::len'):
            inner = X[2] if X[0] == 'un' else X[2][0]
            if strip_bb(sym.strip_refs(inner) if inner[0] in ('ref', 'refmut') else inner) == strip_bb(t) or strip_bb(inner) == t0:
                try:
                    if not any(c[2](v) for v in range(0, need)):
                        return "dominating length test excludes len < %d" % need
                except Exception:
                    pass
    return None


_CALLERS_CACHE = {}


def _callers(P):
    """callee path -> [(caller fn, bb, terminator)] over the dashu crates of this program; plus the set of
    functions whose address is taken (those cannot be discharged through their call sites)"""
    k = id(P)
    if k not in _CALLERS_CACHE:
        idx, taken = {}, set()
        for g in P.fns():
            if not g["crate"].startswith("dashu") or not g.get("mir"):
                continue
            for bb, t, f in mir.iter_calls(g["mir"], reachable_only=False):
                cp = f and (f.get("rp") or f["p"])
                if cp:
                    idx.setdefault(cp, []).append((g, bb, t))
            for i, j, s_ in mir.iter_stmts(g["mir"], reachable_only=False):
                if s_["k"] == "as":
                    c = mir.op_const(s_["rv"].get("a", {})) if s_["rv"].get("k") == "use" else None
                    if isinstance(c, dict) and c.get("fn"):
                        taken.add(c["fn"].get("p"))
        _CALLERS_CACHE.clear()
        _CALLERS_CACHE[k] = (idx, taken)
    return _CALLERS_CACHE[k]


def _min_len_interproc(P, fn, arg_term, need, depth=0, trail=()):
    """(c) the argument is a parameter of the caller handed on unchanged: the obligation moves to every
    call site of the caller (who-may-call), recursively up to depth 4"""
    t = arg_term
    while isinstance(t, tuple) and t[0] in ('ref', 'refmut'):
        t = t[1]
    t = strip_bb(t)
    if isinstance(t, tuple) and t[0] == 'place' and t[2] == ('*',):
        t = strip_bb(t[1])
    if not (isinstance(t, tuple) and t[0] == 'arg') or depth >= 4 or fn["p"] in trail:
        return None
    if fn.get("vis") == "public" and not fn["p"].startswith("dashu_int::") :
        return None
    k = t[1] - 1
    idx, taken = _callers(P)
    if fn["p"] in taken or fn.get("kind") == "Closure":
        return None
    sites = idx.get(fn["p"], [])
    if not sites:
        return None
    whys = []
    for (g, bb, tt) in sites:
        if k >= len(tt["a"]):
            return None
        Sg = sym.Sym(g)
        cg = mir.cfg_of(g["mir"])
        if bb not in cg.reachable():
            continue
        a = Sg.operand(tt["a"][k])
        w = _min_len_known(Sg, cg, bb, a, need, P, g) or _min_len_interproc(P, g, a, need, depth + 1, trail + (fn["p"],))
        if not w:
            return None
        whys.append("%s: %s" % (g["p"].rsplit("::", 1)[-1], w))
    if not whys:
        return None
    return "parameter handed on unchanged; every call site of %s establishes it (%s)" % (fn["p"].rsplit("::", 1)[-1], "; ".join(sorted(set(whys)))[:300])


def _r17_6(res, P, cfgname):
    sites = 0
    assumed = 0
    for fn in P.fns("dashu_int"):
        S = None
        for bb, t, f in mir.iter_calls(fn["mir"]):
            cp = f and (f.get("rp") or f["p"])
            if cp not in DEBUG_ONLY:
                continue
            S = S or sym.Sym(fn)
            cfg = mir.cfg_of(fn["mir"])
            sites += 1
            arg = S.operand(t["a"][0])
            why = _min_len_known(S, cfg, bb, arg, DEBUG_ONLY[cp], P, fn) or _min_len_interproc(P, fn, arg, DEBUG_ONLY[cp])
            key = "%s called in %s" % (cp.rsplit("::", 1)[1], fn["p"])
            if why:
                res.ok("R17.6", cfgname, key, sample=dict(caller=fn["p"], callee=cp, discharge=why))
            else:
                assumed += 1
                res.ok("R17.6", cfgname, key + "|assumed", nontrivial=False)
                res.assume("R17.6: %s called from %s with an argument whose minimum length depends on slice arithmetic (debug_assert only) — assumed, not decided" % (cp, fn["p"]))
    res.floor("R17.6", cfgname, sites, 20, "call sites of debug-only-guarded unsafe helpers")
    res.note("R17.6[%s]: %d call sites, %d discharged by shape, %d assumed" % (cfgname, sites, sites - assumed, assumed))
    # the helpers themselves must keep their debug assertion (in dbg) -- and nothing else must call
    # get_unchecked / unreachable_unchecked outside the reviewed table (R17.1 covers that)


# ---- R17.7 sign typestate -------------------------------------------------------------------------
UBIG = "dashu_int::ubig::UBig"
IBIG = "dashu_int::ibig::IBig"

from . import typestate


def strip_ref_ty(ty):
    while ty.startswith("&"):
        ty = ty[1:].lstrip()
        if ty.startswith("'"):
            ty = ty.split(" ", 1)[1] if " " in ty else ty
        if ty.startswith("mut "):
            ty = ty[4:]
    return ty


def is_sign_const(ctx, op, variant):
    """operand is the constant Sign::<variant> (a literal constant or a single-def unit aggregate)"""
    c = op.get("c")
    if c is not None:
        return variant in str(c.get("s"))
    l = mir.op_local(op)
    if l is None:
        return False
    d = ctx.du.single_def(l)
    if d is None or d[1] == 't':
        return False
    rv = d[2].get("rv", {})
    if rv.get("k") == "agg" and rv.get("adt") == "dashu_base::sign::Sign":
        return rv.get("vn") == variant
    if rv.get("k") == "use":
        return is_sign_const(ctx, rv["a"], variant)
    return False


SIGN_FNS = {"dashu_int::ibig::IBig::sign", "dashu_int::repr::Repr::sign"}


def positive_edge(fn, bb, root_local):
    """block bb is dominated by the `Sign::Positive` edge of a match on sign() of the given local"""
    S = sym.Sym(fn)
    cfg = mir.cfg_of(fn["mir"])
    def _is_sign_of_root(X):
        if isinstance(X, tuple) and X[0] in ('ref', 'refmut'):
            X = X[1]
        if isinstance(X, tuple) and X[0] == 'call' and X[1] in SIGN_FNS and X[2]:
            r = X[2][0]
            while isinstance(r, tuple) and r[0] in ('ref', 'refmut', 'place'):
                r = r[1]
            return r == ('arg', root_local) or r == ('var', root_local)
        return False

    def _sign_const(X):
        if isinstance(X, tuple) and X[0] in ('ref', 'refmut'):
            X = X[1]
        # `&Sign::Negative` is a promoted constant: look into the promoted body of this function
        if isinstance(X, tuple) and X[0] == 'const' and isinstance(X[1], str) and X[1].startswith("promoted:"):
            import re as _re2
            mm = _re2.search(r"\[(\d+)\]$", X[1])
            proms = fn.get("promoted") or []
            if mm and int(mm.group(1)) < len(proms):
                for blk in proms[int(mm.group(1))].get("bbs", []):
                    for st in blk.get("s", []):
                        if st["k"] == "as" and st["rv"]["k"] == "agg" and st["rv"].get("adt") == "dashu_base::sign::Sign":
                            return st["rv"].get("vn")
            return None
        txt = sym.term_str(X, 120)
        if "Sign::Positive" in txt or txt.endswith("Positive{}") or txt.endswith("::Positive"):
            return "Positive"
        if "Sign::Negative" in txt or txt.endswith("Negative{}") or txt.endswith("::Negative"):
            return "Negative"
        return None

    for c in guards.constraints_at(S, cfg, bb):
        # `x.sign() == Sign::Negative` is false / `x.sign() == Sign::Positive` is true / `!=` mirrored
        if c[0] == 'bool' and isinstance(c[1], tuple) and c[1][0] == 'call' and "PartialEq" in c[1][1] and len(c[1][2]) == 2:
            meth = c[1][1].rsplit("::", 1)[-1]
            a, b = c[1][2]
            for x, y in ((a, b), (b, a)):
                if _is_sign_of_root(x) and _sign_const(y):
                    equal = c[2] if meth == "eq" else (not c[2])
                    if (_sign_const(y) == "Positive" and equal) or (_sign_const(y) == "Negative" and not equal):
                        return True
        if c[0] != 'unary':
            continue
        X = sym.strip_casts(c[1])
        if X[0] == 'discr':
            X = X[1]
        if X[0] == 'call' and X[1] in SIGN_FNS and X[2]:
            r = X[2][0]
            while isinstance(r, tuple) and r[0] in ('ref', 'refmut', 'place'):
                r = r[1]
            if r == ('arg', root_local) or r == ('var', root_local):
                try:
                    if c[2](0) and not c[2](1):
                        return True
                except Exception:
                    pass
    return False


class SignDomain(typestate.Domain):
    """good state: the integer Repr is non-negative"""
    name = "sign"
    NONNEG = {
        "dashu_int::repr::Repr::from_word", "dashu_int::repr::Repr::from_dword", "dashu_int::repr::Repr::from_buffer",
        "dashu_int::repr::Repr::from_ref", "dashu_int::repr::Repr::zero", "dashu_int::repr::Repr::one", "dashu_int::repr::Repr::ones",
        "dashu_int::repr::Repr::from_static_words",
        "dashu_int::ubig::UBig::into_repr", "dashu_int::ubig::UBig::repr",
    }
    SIGNED = {"dashu_int::repr::Repr::neg", "dashu_int::repr::Repr::neg_one", "dashu_int::repr::Repr::signum",
              "dashu_int::ibig::IBig::into_repr", "dashu_int::ibig::IBig::as_sign_repr"}

    def type_rule(self, ty, proj):
        t = strip_ref_ty(ty)
        if t == UBIG and tuple(proj) == ('.0',):
            return True
        if t == IBIG and tuple(proj) == ('.0',):
            return False
        return None

    def const_rule(self, c, proj):
        # named constants of type UBig are non-negative by their own construction sites
        if strip_ref_ty(c.get("ty", "")) == UBIG and tuple(proj) == ('.0',):
            return typestate.GOOD
        return None

    def call_rule(self, ts, ctx, path, fref, args, proj, term):
        if path in self.NONNEG:
            return typestate.GOOD
        if path in self.SIGNED:
            return (False, "result of %s carries a sign" % path)
        if path == "dashu_int::repr::Repr::with_sign":
            if is_sign_const(ctx, args[1], "Positive"):
                return typestate.GOOD
            return (False, "with_sign(_, <non-constant or Negative>)")
        if path == "<dashu_int::repr::Repr as core::clone::Clone>::clone":
            return ts.operand(ctx, args[0], proj)
        return None


def _r17_7(res, P, cfgname):
    ts = typestate.TS(P, SignDomain())
    n = 0
    for fn in P.fns():
        if fn["crate"] == "dashu_macros":
            continue
        ctx = None
        for i, j, s in mir.iter_stmts(fn["mir"]):
            if s["k"] != "as":
                continue
            rv = s["rv"]
            if rv["k"] == "agg" and rv["ak"] == "adt" and rv["adt"] == UBIG:
                ctx = ctx or ts.ctx(fn)
                n += 1
                _r = ts.operand(ctx, rv["ops"][0], ())
                ok, why = _r[0], _r[1]
                mac = [m for m in mir.span_macros(s["sp"]) if not m.startswith("desugar")]
                fam = mac[-1] if mac else "-"
                key = "UBig(..) in %s [%s]" % (fn["p"], fam)
                if not ok:
                    # guard-sensitive refinement: `x.0` of an IBig on the Sign::Positive edge of
                    # a match on x.sign()
                    pl = mir.op_place(rv["ops"][0])
                    src = None
                    if pl is not None and not pl.get("p"):
                        d = ctx.du.single_def(pl["l"])
                        if d and d[1] != 't' and d[2]["rv"]["k"] == "use":
                            src = mir.op_place(d[2]["rv"]["a"])
                        elif d and d[1] == 't' and (mir.callee_path(d[2]) or "") == "<dashu_int::repr::Repr as core::clone::Clone>::clone" and d[2]["a"]:
                            # `UBig(x.0.clone())`: the clone of a field has the sign of the field
                            al = mir.op_place(d[2]["a"][0])
                            d2 = ctx.du.single_def(al["l"]) if al is not None and not al.get("p") else None
                            if d2 and d2[1] != 't' and d2[2]["rv"]["k"] == "ref":
                                src = d2[2]["rv"]["p"]
                    elif pl is not None:
                        src = pl
                    if src is not None and [e.get("n") for e in src.get("p", []) if e["k"] == "f"] == ["0"] and positive_edge(fn, i, src["l"]):
                        ok, why = True, "on the Sign::Positive edge of a match on sign()"
                        key += "|positive-edge"
                if ok:
                    res.ok("R17.7", cfgname, key, sample=dict(function=fn["p"], macro=fam, at=span_loc(s["sp"])))
                else:
                    res.fail("R17.7", cfgname, key,
                             "UBig(..) built in %s from a Repr that is not provably non-negative (%s); as_typed()/into_typed() on a negative capacity is unreachable!()/UB-adjacent"
                             % (fn["p"], why), span_loc(s["sp"]))
    res.floor("R17.7", cfgname, n, 150, "UBig(..) constructions")
    # zero is never negative: capacity-negating writes are on the !is_zero() edge
    for path in ("dashu_int::repr::Repr::with_sign", "dashu_int::repr::Repr::neg"):
        fn = _find(P, path)
        if fn is None:
            res.anchor("R17.7", cfgname, "fn " + path)
            continue
        S = sym.Sym(fn)
        cfg = mir.cfg_of(fn["mir"])
        hit = False
        for i, j, s in mir.iter_stmts(fn["mir"]):
            if s["k"] == "as" and any(e.get("n") == "capacity" for e in s["p"].get("p", [])):
                hit = True
                ok = False
                for c in guards.constraints_at(S, cfg, i):
                    if c[0] == 'bool' and isinstance(c[1], tuple) and c[1][0] == 'call' and c[1][1] == "dashu_int::repr::Repr::is_zero" and c[2] is False:
                        ok = True
                key = "%s negates capacity only when !is_zero()" % path
                if ok:
                    res.ok("R17.7", cfgname, key, sample=dict(function=path, guard="!self.is_zero() dominates the capacity write"))
                else:
                    res.fail("R17.7", cfgname, key, "%s writes `capacity` without the !is_zero() guard: zero could become negative" % path, span_loc(s["sp"]))
        if not hit:
            res.anchor("R17.7", cfgname, "capacity write in " + path)


# ---- R17.9 ---------------------------------------------------------------------------------------

def _r17_9(res, P, cfgname):
    path = "dashu_int::memory::Memory::<'_>::try_find_memory_for_slice"
    fn = _find(P, path)
    if fn is None:
        res.anchor("R17.9", cfgname, "fn " + path)
        return
    S = sym.Sym(fn)
    cfg = mir.cfg_of(fn["mir"])
    # (a) no unchecked +,* on usize: every Add/Mul in the body is checked_* (calls) — raw BinaryOp Add/Mul
    bad = []
    for i, j, s in mir.iter_stmts(fn["mir"]):
        if s["k"] == "as" and s["rv"]["k"] == "bin" and s["rv"]["op"] in ("Add", "Mul", "AddUnchecked", "MulUnchecked", "AddWithOverflow", "MulWithOverflow"):
            bad.append(span_loc(s["sp"]))
    key = path + "|checked arithmetic only"
    if bad:
        res.fail("R17.9", cfgname, key, "unchecked +/* on addresses in try_find_memory_for_slice at %s" % bad, bad[0])
    else:
        res.ok("R17.9", cfgname, key)
    # (b) Some(..) only on the slice_end <= end edge
    n_some = 0
    for i, j, s in mir.iter_stmts(fn["mir"]):
        if s["k"] == "as" and s["rv"]["k"] == "agg" and s["rv"].get("vn") == "Some" and s["p"]["l"] == 0:
            n_some += 1
            rels = rels_at(S, cfg, i)
            ok = False
            for op, a, b in rels:
                if op == 'Le' and sym.contains(a, lambda x: isinstance(x, tuple) and x[0] == 'call' and 'checked_add' in x[1]) \
                        and sym.contains(b, lambda x: isinstance(x, tuple) and x[0] == 'place' and '.end' in x[2]):
                    ok = True
            key = path + "|Some only when slice_end <= end"
            if ok:
                res.ok("R17.9", cfgname, key, sample=dict(function=path, guard="slice_end <= self.end dominates Some(..)"))
            else:
                res.fail("R17.9", cfgname, key, "try_find_memory_for_slice returns Some(..) without the `slice_end <= end` guard", span_loc(s["sp"]))
    if n_some == 0:
        res.anchor("R17.9", cfgname, "Some(..) return in " + path)
    # (c) allocate_slice_initialize: from_raw_parts_mut(ptr, n) with ptr from try_find_memory_for_slice, n the same n
    path2 = "dashu_int::memory::Memory::<'_>::allocate_slice_initialize"
    fn = _find(P, path2)
    if fn is None:
        res.anchor("R17.9", cfgname, "fn " + path2)
        return
    S = sym.Sym(fn)
    hit = False
    for bb, t, f in mir.iter_calls(fn["mir"]):
        cp = f and (f.get("rp") or f["p"])
        if cp == "core::slice::raw::from_raw_parts_mut":
            hit = True
            ptr = S.operand(t["a"][0])
            cnt = strip_bb(S.operand(t["a"][1]))
            finds = [c for c in sym.calls_in(ptr) if c[1] == path]
            ok = bool(finds) and strip_bb(finds[0][2][1]) == cnt
            key = path2 + "|from_raw_parts_mut(ptr, n) from try_find_memory_for_slice(n)"
            if ok:
                res.ok("R17.9", cfgname, key, sample=dict(function=path2, ptr=sym.term_str(ptr, 160), n=sym.term_str(cnt)))
            else:
                res.fail("R17.9", cfgname, key, "allocate_slice_initialize builds a slice whose pointer/length do not both come from try_find_memory_for_slice(n)", span_loc(t["sp"]))
    if not hit:
        res.anchor("R17.9", cfgname, "from_raw_parts_mut in " + path2)
    # (d) the init closures write only indices < n: ptr.add(i) with i from enumerate()/range bounded by n
    for name, bound in (("allocate_slice_fill", "range 0..n"), ("allocate_slice_copy", "enumerate over source (len == n)"),
                        ("allocate_slice_copy_fill", "enumerate over source, range source.len()..n, n >= source.len() asserted")):
        cl = _find(P, "dashu_int::memory::Memory::<'_>::%s::{closure#0}" % name)
        outer = _find(P, "dashu_int::memory::Memory::<'_>::%s" % name)
        if cl is None or outer is None:
            res.anchor("R17.9", cfgname, "closure of " + name)
            continue
        S = sym.Sym(cl)
        ok = True
        for bb, t, f in mir.iter_calls(cl["mir"]):
            cp = f and (f.get("rp") or f["p"])
            if cp == "core::ptr::mut_ptr::<impl *mut T>::add":
                idx = S.operand(t["a"][1])
                # index must come from an iterator's next() (Range or Enumerate), never from arithmetic
                good = sym.contains(idx, lambda x: isinstance(x, tuple) and x[0] == 'call' and x[1].endswith("::next"))
                if not good:
                    ok = False
        key = "Memory::%s closure indices iterator-bounded" % name
        # the size passed to allocate_slice_initialize must be the iterator bound
        So = sym.Sym(outer)
        size_ok = False
        for bb, t, f in mir.iter_calls(outer["mir"]):
            cp = f and (f.get("rp") or f["p"])
            if cp == path2:
                size = strip_bb(So.operand(t["a"][1]))
                if name == "allocate_slice_copy":
                    size_ok = is_len_of(size, ('arg', 2))
                else:
                    size_ok = size == ('arg', 2)
        if name == "allocate_slice_copy_fill":
            cfg = mir.cfg_of(outer["mir"])
            # assert!(n >= source.len()) dominates the call
            for bb, t, f in mir.iter_calls(outer["mir"]):
                cp = f and (f.get("rp") or f["p"])
                if cp == path2:
                    rels = rels_at(So, cfg, bb)
                    size_ok = size_ok and any(op == 'Le' and is_len_of(a, ('arg', 3)) and strip_bb(b) == ('arg', 2) for op, a, b in rels)
        if ok and size_ok:
            res.ok("R17.9", cfgname, key, sample=dict(function=name, bound=bound))
        else:
            res.fail("R17.9", cfgname, key, "Memory::%s: init closure index not iterator-bounded by the allocated size (idx-ok=%s size-ok=%s)" % (name, ok, size_ok), span_loc(cl["sp"]))


CLONE_FROM = "<dashu_int::repr::Repr as core::clone::Clone>::clone_from"


def _r17_8c(res, P, cfgname):
    """Repr::clone_from: (a) no leak — the inline overwrite of a possibly-heap destination is reached
    only through deallocate_raw or an edge establishing |capacity(self)| <= 2 on the *absolute*
    capacity; (b) the final sign fix-up depends on the current sign of self."""
    from .c17 import capacity_roots, root_of
    f = _find(P, CLONE_FROM)
    if f is None:
        res.anchor("R17.8", cfgname, "fn " + CLONE_FROM)
        return
    body = f["mir"]
    S = sym.Sym(f)
    cfg = mir.cfg_of(body)
    # ---- (a)
    targets = set()
    for i, j, s in mir.iter_stmts(body):
        if s["k"] == "as":
            pr = s["p"].get("p", [])
            if any(e.get("union") and e.get("n") == "inline" for e in pr):
                targets.add(i)
    dealloc = {bb for bb, t, fr in mir.iter_calls(body) if fr and (fr.get("rp") or fr["p"]) == "dashu_int::buffer::Buffer::deallocate_raw"}
    good_edges = set()
    for a, b, fact in S.edge_facts():
        for c in guards.constraints(fact):
            if c[0] != 'unary':
                continue
            X = sym.strip_casts(c[1])
            txt = sym.term_str(X, 300)
            absolute = ("sign_capacity" in txt or "Repr::capacity" in txt) and "NonZero" not in txt
            if not absolute or ('arg', 1) not in capacity_roots(X):
                continue
            try:
                if not any(c[2](v) for v in (3, 4, 1000, 1 << 40)):
                    good_edges.add((a, b))
            except Exception:
                pass
    key = "clone_from: inline overwrite only after dealloc or |capacity| <= 2"
    if not targets or not dealloc:
        res.anchor("R17.8", cfgname, key)
    else:
        seen = {0}
        st = [0]
        while st:
            x = st.pop()
            for y in cfg.succ[x]:
                if (x, y) in good_edges or y in dealloc or y in seen:
                    continue
                seen.add(y)
                st.append(y)
        leak = targets & seen
        if leak:
            res.fail("R17.8", cfgname, key, "Repr::clone_from can overwrite a heap destination with inline data without freeing its buffer: the release is not guarded by the absolute capacity (a negative number has a negative capacity field) — memory leak", span_loc(f["sp"]))
        else:
            res.ok("R17.8", cfgname, key, sample=dict(function=f["p"], dealloc_sites=len(dealloc), abs_capacity_edges=len(good_edges)))
    # ---- (b)
    key = "clone_from: sign fix-up reads the current sign of self"
    neg_blocks = []
    for i, j, s in mir.iter_stmts(body):
        if s["k"] == "as" and any(e.get("n") == "capacity" for e in s["p"].get("p", [])):
            t = S.rvalue(s["rv"])
            if any(isinstance(x, tuple) and x[0] == 'un' and x[1] == 'Neg' for x in sym.subterms(t)):
                neg_blocks.append(i)
    if not neg_blocks:
        res.anchor("R17.7", cfgname, key)
        return
    ok = False
    cap_writes = {i for i, j, s in mir.iter_stmts(body) if s["k"] == "as" and any(e.get("n") == "capacity" for e in s["p"].get("p", []))}

    def fresh(read_bb, nb):
        """no other write of self.capacity lies on a path read_bb ->* nb (the value read is still current)"""
        fwd = cfg.reach_from(read_bb)
        for w in cap_writes - {nb}:
            if w in fwd and w != read_bb and nb in cfg.reach_from(w):
                return False
        return True
    stale = False
    for nb in neg_blocks:
        for sb, blk in enumerate(body["bbs"]):
            t = blk["t"]
            if t["k"] != "switch" or not cfg.dominates(sb, nb) or all(nb in cfg.reach_from(x) for x in cfg.succ[sb]):
                continue
            start = []
            mir.walk_places(t["d"], lambda p: start.append(p["l"]))
            locs, calls = mir.backward_slice(body, start)
            for cb in calls:
                tt = body["bbs"][cb]["t"]
                cp = mir.callee_path(tt) or ""
                if cp == "core::num::nonzero::NonZero::<T>::get" and "arg1" in sym.term_str(S.operand(tt["a"][0]), 100):
                    if fresh(cb, nb):
                        ok = True
                    else:
                        stale = True
            for i, j, s in mir.iter_stmts(body):
                if s["k"] == "as" and s["p"]["l"] in locs and s["rv"]["k"] == "use":
                    pl = mir.op_place(s["rv"]["a"])
                    if pl and pl.get("p") and pl["p"][-1].get("k") == "f" and pl["p"][-1].get("i") == 1:
                        base = S.local(pl["l"])
                        if base[0] == 'call' and base[1].endswith("Repr::sign_capacity") and root_of(base[2][0]) == ('arg', 1):
                            rb = next((cb2 for cb2 in calls if (mir.callee_path(body["bbs"][cb2]["t"]) or "").endswith("Repr::sign_capacity")), None)
                            if rb is None or fresh(rb, nb):
                                ok = True
                            else:
                                stale = True
    if ok:
        res.ok("R17.7", cfgname, key)
    elif stale:
        res.fail("R17.7", cfgname, key, "Repr::clone_from decides the final sign flip from a sign/capacity of self that was read *before* another write of self.capacity on the same path (the reallocation stores a positive capacity): the value is stale and the copy gets the wrong sign when a negative destination is reallocated", span_loc(f["sp"]))
    else:
        res.fail("R17.7", cfgname, key, "Repr::clone_from negates `capacity` under a condition that does not read the current sign of self (only the absolute capacity): the copy gets the wrong sign whenever the destination was negative", span_loc(f["sp"]))


def _r17_11(res, P, cfgname):
    """Zeroize for Repr (feature zeroize): every path resets self to the canonical zero"""
    f = _find(P, "dashu_int::third_party::zeroize::<impl zeroize::Zeroize for dashu_int::repr::Repr>::zeroize")
    if f is None:
        return
    S = sym.Sym(f)
    cfg = mir.cfg_of(f["mir"])
    blocks = set()
    for bb, t, fr in mir.iter_calls(f["mir"]):
        cp = fr and (fr.get("rp") or fr["p"])
        if cp == CLONE_FROM:
            src = strip_bb(S.operand(t["a"][1]))
            if any(isinstance(x, tuple) and x[0] == 'call' and x[1] == "dashu_int::repr::Repr::zero" for x in sym.subterms(src)):
                blocks.add(bb)
    key = "Zeroize for Repr resets to canonical zero on every path"
    if blocks and cfg.must_pass(blocks):
        res.ok("R17.7", cfgname, key)
    else:
        res.fail("R17.7", cfgname, key, "Zeroize for Repr has a path that wipes the words but keeps capacity and sign: an inline value becomes a non-canonical zero (negative zero / two-word zero)", span_loc(f["sp"]))


def run(res, programs, tier):
    res.rule("R17.5", "every raw read/write/copy in Buffer is dominated by a release-surviving bound check implying its extent, or its extent equals the just-allocated size / the len field")
    res.rule("R17.6", "unsafe helpers guarded only by debug_assert! (highest_dword, lowest_dword, split_hi_word, shr_in_place_one_word): obligation pushed to call sites; shape-discharged or listed as assumed")
    res.rule("R17.7", "every UBig(..) is built from a Repr that is non-negative on all reaching definitions; capacity is negated only when !is_zero()")
    res.rule("R17.9", "bump allocator: checked address arithmetic, Some only under slice_end <= end, slices built only from that result, init closures iterator-bounded")
    for P in programs:
        if "dashu_int" not in P.units:
            continue
        from .c17 import storage_view
        P = storage_view(P)
        _r17_5(res, P, P.name)
        _r17_6(res, P, P.name)
        _r17_7(res, P, P.name)
        _r17_9(res, P, P.name)
        _r17_8c(res, P, P.name)
        _r17_11(res, P, P.name)
