def run(res, programs, tier):
    pass
