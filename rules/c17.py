"""C17 — hand-managed integer storage: static discharge of every unsafe obligation.

Decides the static half of the property: no operation in the source can break the
capacity / len / inline-vs-heap / sign discipline on which the unsafe code relies, on any path,
in any analysed configuration.  Not decided: allocator behaviour, UB depending on slice values."""
from . import mir, sym, guards
from .mir import span_loc

PROP = "C17"
CONFIGS = {"quick": ["dbg", "rel", "feat"], "thorough": ["dbg", "rel", "feat", "w32", "nostd"]}
LEVEL = ("Static obligations discharged on all paths / all instances: every unsafe operation of the "
         "integer storage layer (union reads, transmutes, raw reads/writes, unchecked constructors, "
         "allocator calls) is inventoried from MIR and discharged by a rule of its kind (dominating "
         "capacity/len guard that survives release builds, constructor/writer sets, provenance of "
         "NonZero operands, sign typestate of every UBig construction, ownership of allocations). "
         "This decides the code-shape half of C17, not allocator behaviour nor value-dependent slice "
         "arithmetic inside safe kernels.")
TRUSTED = ["rustc MIR construction and callee resolution (nightly, -Zmir-opt-level=0)",
           "reviewed instance tables in rules/c17.py (one reason per entry)",
           "the Rust type system for module privacy of Repr/Buffer fields (witnessed by E2 doc-tests)"]

INT = "dashu_int"
REPR = "dashu_int::repr::Repr"
REPRDATA = "dashu_int::repr::ReprData"
BUFFER = "dashu_int::buffer::Buffer"

CAP_FNS = {"dashu_int::repr::Repr::capacity", "dashu_int::repr::Repr::sign_capacity",
           "core::num::nonzero::NonZero::<T>::get"}

# ------------------------------------------------------------------------------------------------
# R17.1 table: function -> allowed unsafe operation kinds -> discharging rule
# kinds: union.<field>, unioninit.<field>, transmute:<from>-><to>, rawderef, call:<path>
# ------------------------------------------------------------------------------------------------
T = "transmute:"
C = "call:"
NZ = C + "core::num::nonzero::NonZero::<T>::new_unchecked"
NN = C + "core::ptr::non_null::NonNull::<T>::new_unchecked"
FRP = C + "core::slice::raw::from_raw_parts"
FRPM = C + "core::slice::raw::from_raw_parts_mut"
UU = C + "core::hint::unreachable_unchecked"
ADD = C + "core::ptr::mut_ptr::<impl *mut T>::add"
SUB = C + "core::ptr::mut_ptr::<impl *mut T>::sub"
PW = C + "core::ptr::write"
PR = C + "core::ptr::read"
CNO = C + "core::ptr::copy_nonoverlapping"
PCOPY = C + "core::ptr::copy"
DEALLOC_RAW = C + "dashu_int::buffer::Buffer::deallocate_raw"
B2R = T + "dashu_int::buffer::Buffer->dashu_int::repr::Repr"
R2B = T + "dashu_int::repr::Repr->dashu_int::buffer::Buffer"

UNSAFE_TABLE = {
    # ---- repr.rs
    "dashu_int::repr::Repr::len": {UU: "R17.2", "union.heap": "R17.2", "union.inline": "R17.2"},
    "dashu_int::repr::Repr::as_sign_typed": {UU: "R17.2", FRP: "R17.2", "union.heap": "R17.2", "union.inline": "R17.2"},
    "dashu_int::repr::Repr::as_sign_slice": {UU: "R17.2", FRP: "R17.2", "union.heap": "R17.2", "union.inline": "R17.2"},
    "dashu_int::repr::Repr::as_full_slice": {FRPM: "R17.2", "union.heap": "R17.2", "union.inline": "R17.2"},
    "dashu_int::repr::Repr::into_typed": {UU: "R17.2", R2B: "R17.2", "union.inline": "R17.2"},
    "dashu_int::repr::Repr::into_buffer": {UU: "R17.2", R2B: "R17.2", "union.inline": "R17.2"},
    "dashu_int::repr::Repr::into_sign_typed": {NZ: "R17.4"},
    "dashu_int::repr::Repr::is_zero": {"union.inline": "R17.2"},
    "dashu_int::repr::Repr::is_one": {"union.inline": "R17.2"},
    "dashu_int::repr::Repr::from_word": {NZ: "R17.4", "unioninit.inline": "R17.3"},
    "dashu_int::repr::Repr::from_dword": {NZ: "R17.4", "unioninit.inline": "R17.3"},
    "dashu_int::repr::Repr::from_static_words": {NZ: "R17.4", "unioninit.heap": "R17.3"},
    "dashu_int::repr::Repr::from_buffer": {B2R: "R17.2"},
    "dashu_int::repr::Repr::ones": {B2R: "R17.2"},
    "dashu_int::repr::Repr::neg": {NZ: "R17.4"},
    "dashu_int::repr::Repr::with_sign": {NZ: "R17.4"},
    "<dashu_int::repr::Repr as core::clone::Clone>::clone": {
        NZ: "R17.4", FRP: "R17.2", B2R: "R17.2", "union.heap": "R17.2", "union.inline": "R17.2",
        "unioninit.inline": "R17.3"},
    "<dashu_int::repr::Repr as core::clone::Clone>::clone_from": {
        NZ: "R17.4", CNO: "R17.2", NN: "R17.2", DEALLOC_RAW: "R17.8", "union.heap": "R17.2",
        "union.inline": "R17.2"},
    "<dashu_int::repr::Repr as core::ops::drop::Drop>::drop": {NN: "R17.2", DEALLOC_RAW: "R17.8", "union.heap": "R17.2"},
    # ---- buffer.rs
    "<dashu_int::buffer::Buffer as core::clone::Clone>::clone": {CNO: "R17.5"},
    "<dashu_int::buffer::Buffer as core::clone::Clone>::clone_from": {CNO: "R17.5"},
    "<dashu_int::buffer::Buffer as core::ops::deref::Deref>::deref": {FRP: "R17.5"},
    "<dashu_int::buffer::Buffer as core::ops::deref::DerefMut>::deref_mut": {FRPM: "R17.5"},
    "<dashu_int::buffer::Buffer as core::ops::drop::Drop>::drop": {DEALLOC_RAW: "R17.8"},
    "dashu_int::buffer::Buffer::allocate_raw": {C + "alloc::alloc::alloc": "R17.8"},
    "dashu_int::buffer::Buffer::deallocate_raw": {C + "alloc::alloc::dealloc": "R17.8"},
    "dashu_int::buffer::Buffer::reallocate_raw": {C + "alloc::alloc::realloc": "R17.8"},
    "dashu_int::buffer::Buffer::as_full_slice": {C + "core::ptr::non_null::NonNull::<T>::as_mut": "R17.5", FRPM: "R17.5"},
    "dashu_int::buffer::Buffer::clone_from_slice": {CNO: "R17.5"},
    "dashu_int::buffer::Buffer::erase_front": {PCOPY: "R17.5", ADD: "R17.5"},
    "dashu_int::buffer::Buffer::into_boxed_slice": {
        C + "alloc::alloc::realloc": "R17.8", C + "alloc::boxed::Box::<T>::from_raw": "R17.8", FRPM: "R17.5"},
    "dashu_int::buffer::Buffer::lowest_dword": {ADD: "R17.5", PR: "R17.5"},
    "dashu_int::buffer::Buffer::lowest_dword_mut": {ADD: "R17.5", "rawderef": "R17.5"},
    "dashu_int::buffer::Buffer::pop_zeros": {ADD: "R17.5", SUB: "R17.5", PR: "R17.5"},
    "dashu_int::buffer::Buffer::push": {ADD: "R17.5", PW: "R17.5"},
    "dashu_int::buffer::Buffer::push_repeat": {ADD: "R17.5", PW: "R17.5"},
    "dashu_int::buffer::Buffer::push_slice": {CNO: "R17.5", ADD: "R17.5"},
    "dashu_int::buffer::Buffer::push_zeros_front": {PCOPY: "R17.5", ADD: "R17.5", PW: "R17.5"},
    # ---- memory.rs
    "<dashu_int::memory::Memory<'_> as core::fmt::Debug>::fmt": {C + "core::ptr::mut_ptr::<impl *mut T>::offset_from": "R17.9"},
    "<dashu_int::memory::MemoryAllocation as core::ops::drop::Drop>::drop": {C + "alloc::alloc::dealloc": "R17.8"},
    "dashu_int::memory::MemoryAllocation::new": {C + "alloc::alloc::alloc": "R17.8"},
    "dashu_int::memory::Memory::<'_>::allocate_slice_copy::{closure#0}": {ADD: "R17.9", C + "core::ptr::mut_ptr::<impl *mut T>::write": "R17.9"},
    "dashu_int::memory::Memory::<'_>::allocate_slice_copy_fill::{closure#0}": {ADD: "R17.9", C + "core::ptr::mut_ptr::<impl *mut T>::write": "R17.9"},
    "dashu_int::memory::Memory::<'_>::allocate_slice_fill::{closure#0}": {ADD: "R17.9", C + "core::ptr::mut_ptr::<impl *mut T>::write": "R17.9"},
    "dashu_int::memory::Memory::<'_>::allocate_slice_initialize": {FRPM: "R17.9"},
    # ---- debug-only obligations (R17.6)
    "dashu_int::primitive::highest_dword": {C + "core::slice::<impl [T]>::get_unchecked": "R17.6"},
    "dashu_int::primitive::lowest_dword": {C + "core::slice::<impl [T]>::get_unchecked": "R17.6"},
    "dashu_int::primitive::split_hi_word": {UU: "R17.6"},
    "dashu_int::shift::shr_in_place_one_word": {
        ADD: "R17.6", C + "core::ptr::mut_ptr::<impl *mut T>::copy_from": "R17.6",
        C + "core::ptr::mut_ptr::<impl *mut T>::read": "R17.6", C + "core::ptr::mut_ptr::<impl *mut T>::write": "R17.6"},
    # ---- reference casts between transparent wrappers (R17.2c)
    "dashu_int::convert::<impl dashu_int::ibig::IBig>::as_ubig": {T + "&dashu_int::ibig::IBig->&dashu_int::ubig::UBig": "R17.2c"},
    "dashu_int::convert::<impl dashu_int::ubig::UBig>::as_ibig": {T + "&dashu_int::ubig::UBig->&dashu_int::ibig::IBig": "R17.2c"},
    "dashu_ratio::rbig::RBig::as_relaxed": {T + "&dashu_ratio::rbig::RBig->&dashu_ratio::rbig::Relaxed": "R17.2c"},
    # ---- static-word constructors: unsafe fn all the way up (R17.8b)
    "dashu_int::ubig::UBig::from_static_words": {C + "dashu_int::repr::Repr::from_static_words": "R17.8b"},
    "dashu_int::ibig::IBig::from_static_words": {C + "dashu_int::repr::Repr::from_static_words": "R17.8b"},
    "dashu_float::repr::Repr::<B>::from_static_words": {C + "dashu_int::ibig::IBig::from_static_words": "R17.8b"},
    "dashu_ratio::repr::Repr::from_static_words": {
        C + "dashu_int::ibig::IBig::from_static_words": "R17.8b", C + "dashu_int::ubig::UBig::from_static_words": "R17.8b"},
    "dashu_ratio::rbig::Relaxed::from_static_words": {C + "dashu_ratio::repr::Repr::from_static_words": "R17.8b"},
    "dashu_ratio::rbig::RBig::from_static_words": {C + "dashu_ratio::repr::Repr::from_static_words": "R17.8b"},
    # ---- others
    "dashu_int::fmt::digit_writer::DigitWriter::<'a>::flush": {C + "core::str::converts::from_utf8_unchecked": "R17.10"},
}
# arch intrinsics (x86 adc/sbb): value-in/value-out intrinsics with no memory-safety precondition
INTRINSIC_OK = ("core::core_arch::x86_64::", "core::core_arch::x86::")


def _is_box_lowering_cast(rv):
    """`<box>.0.pointer as *const T` (Transmute) emitted by MIR Box-deref elaboration"""
    if rv.get("k") != "cast" or rv.get("ck") != "transmute":
        return False
    if not rv.get("from", "").startswith(("core::ptr::non_null::NonNull<", "core::ptr::unique::Unique<")):
        return False
    if not rv.get("ty", "").startswith("*const "):
        return False
    p = mir.op_place(rv["a"])
    if p is None:
        return False
    return any(e.get("k") == "f" and e.get("n") == "pointer" and e.get("of", "").startswith("core::ptr::unique::Unique")
               for e in p.get("p", []))


def is_box_deref(S, place):
    """raw deref produced by Box deref lowering: base local = transmute of <box>.0.pointer"""
    d = S.du.single_def(place["l"])
    if d is None or d[1] == 't':
        return False
    return _is_box_lowering_cast(d[2].get("rv", {}))


def unsafe_ops(fn):
    """yield (kind, bb, where, node) for every unsafe operation in a body (workspace-relevant)"""
    b = fn["mir"]
    S = None
    cfg = mir.cfg_of(b)
    reach = cfg.reachable()
    out = []

    def scan(node, bb, sp, role):
        nonlocal S
        def f(p):
            nonlocal S
            for idx, e in enumerate(p.get("p", [])):
                if e.get("union") and e.get("of", "").startswith("dashu_"):
                    out.append(("union." + e["n"], bb, span_loc(sp), (p, idx, role)))
                if e.get("raw"):
                    if S is None:
                        S = sym.Sym(fn)
                    if idx == 0 and is_box_deref(S, p):
                        continue
                    out.append(("rawderef", bb, span_loc(sp), (p, idx, role)))
        mir.walk_places(node, f)

    for i, bb in enumerate(b["bbs"]):
        if bb.get("cu") or i not in reach:
            continue
        for s in bb["s"]:
            if s["k"] != "as":
                continue
            scan(s["rv"], i, s["sp"], "read")
            scan(s["p"], i, s["sp"], "write")
            rv = s["rv"]
            if rv["k"] == "cast" and rv["ck"] == "transmute" and not _is_box_lowering_cast(rv):
                if "dashu_" in rv["ty"] or "dashu_" in rv["from"]:
                    out.append((T + rv["from"] + "->" + rv["ty"], i, span_loc(s["sp"]), s))
            if rv["k"] == "agg" and rv.get("uf") and rv.get("adt", "").startswith("dashu_"):
                out.append(("unioninit." + rv["uf"], i, span_loc(s["sp"]), s))
        t = bb["t"]
        if t["k"] == "call":
            scan(t["a"], i, t["sp"], "read")
            f = mir.callee(t)
            if f and f.get("unsafe"):
                macs = mir.span_macros(t["sp"])
                p = f.get("rp") or f["p"]
                if p.startswith("core::fmt::Arguments") and any("format_args" in m or m in ("write", "panic", "assert", "unreachable", "debug_assert", "writeln", "format") for m in macs):
                    continue
                if p.startswith("core::fmt::Arguments"):
                    continue
                if p.startswith(INTRINSIC_OK):
                    out.append(("intrinsic:" + p, i, span_loc(t["sp"]), t))
                    continue
                out.append((C + p, i, span_loc(t["sp"]), t))
        elif t["k"] == "switch":
            scan(t["d"], i, t["sp"], "read")
    return out


# ------------------------------------------------------------------------------------------------
# capacity facts
# ------------------------------------------------------------------------------------------------

def root_of(t):
    """root term of a place/ref chain"""
    while isinstance(t, tuple):
        if t[0] == 'place':
            t = t[1]
        elif t[0] in ('ref', 'refmut', 'rawptr'):
            t = t[1]
        elif t[0] == 'cast':
            t = t[2]
        else:
            break
    return t


def capacity_roots(X):
    """if X is an integer term derived from the `capacity` field of some Repr, return the set of root
    terms of those Reprs (by going through Repr::capacity / sign_capacity / NonZero::get / casts /
    unsigned_abs)"""
    roots = set()
    for s in sym.subterms(X):
        if not isinstance(s, tuple):
            continue
        if s[0] == 'place' and '.capacity' in s[2]:
            roots.add(root_of(s[1]))
        if s[0] == 'call' and s[1] in ("dashu_int::repr::Repr::capacity", "dashu_int::repr::Repr::sign_capacity"):
            if s[2]:
                roots.add(root_of(s[2][0]))
    return roots


def buffer_len_roots(X):
    roots = set()
    for s in sym.subterms(X):
        if isinstance(s, tuple) and s[0] == 'call' and s[1] == "dashu_int::buffer::Buffer::len" and s[2]:
            roots.add(root_of(s[2][0]))
        if isinstance(s, tuple) and s[0] == 'place' and s[2] and s[2][-1] == '.len':
            roots.add(root_of(s[1]))
    return roots


SMALL = (0, 1, 2)
LARGE = (3, 4, 5, 1000, 1 << 40)


def cap_state(cons, root, roots_fn=capacity_roots):
    """what the dominating facts say about |capacity| of `root`: 'inline', 'heap' or None.
    Signed capacities (NonZero::get) are accepted for 'inline' only with values 1,2 and for 'heap'
    when 0,1,2 are excluded (negative values are R17.7's business: into_typed/into_buffer require
    NonNeg operands)."""
    st = None
    for c in cons:
        if c[0] != 'unary':
            continue
        X, pred = c[1], c[2]
        X = sym.strip_casts(X)
        if root not in roots_fn(X):
            continue
        try:
            small_ok = [pred(v) for v in (1, 2)]
            zero_small = [pred(v) for v in SMALL]
            large_ok = [pred(v) for v in LARGE]
        except Exception:
            continue
        if not any(large_ok) and any(small_ok):
            st = 'inline' if st in (None, 'inline') else 'contradiction'
        elif not any(zero_small) and any(large_ok):
            st = 'heap' if st in (None, 'heap') else 'contradiction'
    return st


def union_access_root(S, place, idx):
    """root term of the Repr whose `.data.<field>` is accessed"""
    base = dict(place)
    base["p"] = place["p"][:idx]
    t = S.place(base) if base["p"] else S.local(base["l"])
    # strip trailing .data
    if t[0] == 'place' and t[2] and t[2][-1] == '.data':
        rest = t[2][:-1]
        t = ('place', t[1], rest) if rest else t[1]
    return root_of(t)


def run(res, programs, tier):
    r1 = res.rule("R17.1", "every unsafe operation (union access, transmute, raw deref, unsafe call) is in a reviewed function and of a reviewed kind with a discharge rule")
    r2 = res.rule("R17.2", "union field reads / Buffer<->Repr transmutes / heap-pointer uses are dominated by a |capacity| (resp. len) comparison selecting the matching variant, or follow a write of that variant on the same path")
    r2c = res.rule("R17.2c", "reference casts only between #[repr(transparent)] wrappers of the same field type; as_ubig only on the Sign::Positive edge")
    r3 = res.rule("R17.3", "Repr/ReprData/Buffer/Memory values are constructed, and their fields written, only in the reviewed constructor/writer sets; fields are private")
    r4 = res.rule("R17.4", "operands of NonZeroIsize::new_unchecked are provably non-zero by their shape")
    r8 = res.rule("R17.8", "allocator calls only in buffer.rs/memory.rs; deallocate_raw only from Drop/clone_from under cap>2; from_static_words obligations forwarded by unsafe fn up to the doc(hidden) surface")
    for P in programs:
        cfgname = P.name
        if INT not in P.units:
            continue
        P = storage_view(P)
        if getattr(P, "inlined_helpers", None):
            res.note("R17[%s]: private helpers spliced back into their reviewed callers before analysis: %s" % (cfgname, ", ".join(P.inlined_helpers)))
        _inventory(res, P, cfgname)
        _r17_3(res, P, cfgname)
        _r17_8(res, P, cfgname)
    from . import c17b
    c17b.run(res, programs, tier)


def storage_view(P):
    """the Program with unreviewed private helpers of the storage layer (functions that contain unsafe
    operations or write storage fields, are not public, and are called only from reviewed functions) inlined
    into their callers: an `extract helper` refactoring of reviewed unsafe code is analysed as the code it
    was extracted from (rules/inline.py)"""
    from . import inline
    if INT not in P.units:
        return P
    storage_fields = set(FIELD_WRITERS)

    def touches_storage(f):
        if f.get("unsafe"):
            return True
        try:
            if unsafe_ops(f):
                return True
        except Exception:
            return False
        for i, j, s in mir.iter_stmts(f["mir"], reachable_only=False):
            if s["k"] == "as":
                for e in s["p"].get("p", []):
                    if e.get("k") == "f" and (e.get("of"), e.get("n")) in storage_fields:
                        return True
        return False

    def reviewed(c, helpers):
        if c["p"] in UNSAFE_TABLE or c["p"] in helpers:
            return True
        return any(c["p"] in ws for ws in FIELD_WRITERS.values()) or any(c["p"] in cs for cs in CONSTRUCTORS.values())

    def is_helper(f, callers, helpers):
        if f["crate"] != INT or f["p"] in UNSAFE_TABLE or f.get("kind") == "Closure" or str(f.get("vis", "")).startswith("Public"):
            return False
        if any(f["p"] in ws for ws in FIELD_WRITERS.values()):
            return False
        if not touches_storage(f):
            return False
        return all(reviewed(c, helpers) for c in callers)
    return inline.view(P, INT, is_helper)


# ------------------------------------------------------------------------------------------------

def _inventory(res, P, cfgname):
    n_ops = 0
    n_fns = 0
    seen_fns = set()
    for fn in P.fns():
        if fn["crate"] == "dashu_macros":
            continue
        ops = unsafe_ops(fn)
        if not ops:
            continue
        path = fn["p"]
        table = UNSAFE_TABLE.get(path)
        S = sym.Sym(fn)
        cfg = mir.cfg_of(fn["mir"])
        cons_cache = {}
        n_fns += 1
        seen_fns.add(path)
        kinds_seen = set()
        for ordinal, (kind, bb, where, node) in enumerate(ops):
            n_ops += 1
            kinds_seen.add(kind)
            key = "%s|%s" % (path, kind)
            if kind.startswith("intrinsic:"):
                res.ok("R17.1", cfgname, key, nontrivial=False)
                continue
            if table is None or kind not in table:
                res.fail("R17.1", cfgname, key,
                         "undischarged unsafe obligation: `%s` in %s is not a reviewed unsafe operation of that function" % (kind, path),
                         where)
                continue
            res.ok("R17.1", cfgname, key)
            rule = table[kind]
            if bb not in cons_cache:
                cons_cache[bb] = guards.constraints_at(S, cfg, bb)
            cons = cons_cache[bb]
            if rule == "R17.2":
                _r17_2(res, cfgname, fn, S, cfg, kind, bb, where, node, cons, ordinal)
            elif rule == "R17.2c":
                _r17_2c(res, P, cfgname, fn, S, cfg, kind, bb, where, node, cons)
            elif rule == "R17.4":
                _r17_4(res, cfgname, fn, S, cfg, kind, bb, where, node, cons)
        # kinds listed in the table but no longer present are fine (less unsafe code)
    res.floor("R17.1", cfgname, n_ops, 125, "unsafe operations inventoried")
    res.floor("R17.1", cfgname, n_fns, 55, "functions containing unsafe operations")
    # unsafe block / fn / impl inventory from HIR and items
    u = P.units[INT]
    nblocks = len(u.unsafe_blocks)
    res.floor("R17.1", cfgname, nblocks, 45, "unsafe blocks in dashu-int (HIR)")
    unsafe_impls = sorted((i.get("trait", "?"), i["self"]) for i in P.impls if i.get("unsafe"))
    expected_impls = [("core::marker::Send", BUFFER), ("core::marker::Send", REPR),
                      ("core::marker::Sync", BUFFER), ("core::marker::Sync", REPR)]
    for t, s in unsafe_impls:
        key = "unsafe impl %s for %s" % (t, s)
        if (t, s) in expected_impls:
            res.ok("R17.1", cfgname, key)
        elif t.startswith("core::clone::TrivialClone") or "TrivialClone" in t:
            res.ok("R17.1", cfgname, key, nontrivial=False)  # emitted by #[derive(Clone, Copy)]
        else:
            res.fail("R17.1", cfgname, key, "unreviewed `unsafe impl %s for %s`" % (t, s))
    for fn in P.fns():
        if fn.get("unsafe") and fn["crate"] != "dashu_macros":
            key = "unsafe fn " + fn["p"]
            ok = fn["p"] in UNSAFE_TABLE or fn["p"] == "dashu_int::buffer::Buffer::deallocate_raw"
            if ok:
                res.ok("R17.1", cfgname, key)
            else:
                res.fail("R17.1", cfgname, key, "unreviewed unsafe fn " + fn["p"], span_loc(fn["sp"]))


def _written_before(S, cfg, bb, root, field):
    """is union field `field` of `root` definitely written on every path before block bb
    (a write in a dominating block)?"""
    body = S.body
    for i, blk in enumerate(body["bbs"]):
        if i == bb or not cfg.dominates(i, bb):
            continue
        for s in blk["s"]:
            if s["k"] != "as":
                continue
            p = s["p"]
            for idx, e in enumerate(p.get("p", [])):
                if e.get("union") and e["n"] == field:
                    if union_access_root(S, p, idx) == root:
                        return True
    return False


# reviewed exceptions for R17.2 (function, kind) -> reason
R17_2_EXCEPTIONS = {
    ("<dashu_int::repr::Repr as core::clone::Clone>::clone", B2R):
        "the new Buffer has len = self.data.heap.1 of a heap Repr (>= 3 by the type invariant R17.3/R05.1); the transmute is on the capacity > 2 edge of the source",
}


def _r17_2(res, cfgname, fn, S, cfg, kind, bb, where, node, cons, ordinal):
    path = fn["p"]
    key = "%s|%s" % (path, kind)
    if kind.startswith("union."):
        field = kind.split(".", 1)[1]
        place, idx, role = node
        root = union_access_root(S, place, idx)
        want = 'heap' if field == 'heap' else 'inline'
        keyi = "%s|%s|%s" % (key, sym.term_str(root), role)
        if role == "write":
            # writing a union field of a Copy type is safe; the typestate consequences are R17.3's
            res.ok("R17.2", cfgname, keyi + "|w", nontrivial=False)
            return
        st = cap_state(cons, root)
        if st == want:
            res.ok("R17.2", cfgname, keyi, sample=dict(function=path, access=kind, guard="|capacity| of %s selects %s" % (sym.term_str(root), want), at=where))
            return
        if _written_before(S, cfg, bb, root, field):
            res.ok("R17.2", cfgname, keyi + "|after-write", sample=dict(function=path, access=kind, guard="variant written in a dominating block", at=where))
            return
        if path == "<dashu_int::repr::Repr as core::clone::Clone>::clone_from" and field == "heap":
            # the read of self.data.heap.0 before copy_nonoverlapping / the write of heap.1:
            # merges "just reallocated (heap.0 written)" with "cap >= src_len >= 3"
            c2 = [c for c in cons if c[0] == 'rel']
            src_heap = any(cap_state(cons, r) == 'heap' for r in _all_roots(cons))
            if src_heap:
                res.ok("R17.2", cfgname, keyi + "|clone_from-merge", sample=dict(function=path, access=kind, guard="src is heap (src_cap > 2) and either self was just reallocated or cap >= src_len >= 3", at=where))
                return
        res.fail("R17.2", cfgname, keyi,
                 "union field `%s` of %s read in %s without a dominating |capacity| test selecting the %s variant" % (field, sym.term_str(root), path, want),
                 where)
        return
    if kind == B2R:
        rv = node["rv"]
        src = S.operand(rv["a"])
        root = root_of(src)
        st = cap_state(cons, root, roots_fn=buffer_len_roots)
        if st == 'heap':
            res.ok("R17.2", cfgname, key, sample=dict(function=path, op="transmute Buffer->Repr", guard="len() not in {0,1,2} on the dominating edge", at=where))
        elif (path, kind) in R17_2_EXCEPTIONS:
            # structural side condition: source Repr is heap on this path
            ok = any(cap_state(cons, r) == 'heap' for r in _all_roots(cons))
            if ok:
                res.ok("R17.2", cfgname, key + "|exception", sample=dict(function=path, op="transmute Buffer->Repr", reason=R17_2_EXCEPTIONS[(path, kind)]))
            else:
                res.fail("R17.2", cfgname, key, "transmute Buffer->Repr in %s: reviewed exception no longer on the capacity>2 edge" % path, where)
        else:
            res.fail("R17.2", cfgname, key,
                     "transmute::<Buffer, Repr> in %s is not dominated by a `len() not in {0,1,2}` test of that buffer: a 0..2-word value would be stored in heap form (non-canonical)" % path,
                     where)
        return
    if kind == R2B:
        rv = node["rv"]
        src = S.operand(rv["a"])
        root = root_of(src)
        st = cap_state(cons, root)
        if st == 'heap':
            res.ok("R17.2", cfgname, key, sample=dict(function=path, op="transmute Repr->Buffer", guard="capacity not in {0,1,2}", at=where))
        else:
            res.fail("R17.2", cfgname, key, "transmute::<Repr, Buffer> in %s not dominated by capacity > 2" % path, where)
        return
    if kind == UU:
        # unreachable_unchecked on the `0 =>` arm of a capacity match: capacity is NonZero
        ok = False
        for c in cons:
            if c[0] == 'unary' and capacity_roots(sym.strip_casts(c[1])):
                try:
                    if c[2](0) and not any(c[2](v) for v in (1, 2, 3, 1000)):
                        ok = True
                except Exception:
                    pass
        if ok:
            res.ok("R17.2", cfgname, key, sample=dict(function=path, op="unreachable_unchecked", guard="only on the capacity == 0 arm (capacity is NonZeroIsize)", at=where))
        else:
            res.fail("R17.2", cfgname, key, "unreachable_unchecked in %s is not confined to the `capacity == 0` arm" % path, where)
        return
    if kind in (FRP, FRPM, CNO, NN):
        # pointer/len arguments must come from data.heap (guarded above by the union rule), or be the
        # inline array; nothing else may feed them
        t = node
        args = [S.operand(a) for a in t["a"]]
        srcs = set()
        for a in args:
            for s_ in sym.subterms(a):
                if isinstance(s_, tuple) and s_[0] == 'place' and ('.heap' in s_[2] or '.inline' in s_[2]):
                    srcs.add('union')
                if isinstance(s_, tuple) and s_[0] == 'call' and s_[1] in ("dashu_int::repr::Repr::capacity",):
                    srcs.add('capacity')
        if 'union' in srcs:
            res.ok("R17.2", cfgname, key + "|%d" % ordinal, sample=dict(function=path, op=kind, args=[sym.term_str(a, 80) for a in args], at=where))
        else:
            res.fail("R17.2", cfgname, key, "%s in %s takes a pointer/length not read from the guarded union" % (kind, path), where)
        return
    res.fail("R17.2", cfgname, key, "no discharge procedure for %s in %s" % (kind, path), where)


def _all_roots(cons):
    roots = set()
    for c in cons:
        if c[0] == 'unary':
            roots |= capacity_roots(sym.strip_casts(c[1]))
    return roots


def _r17_2c(res, P, cfgname, fn, S, cfg, kind, bb, where, node, cons):
    path = fn["p"]
    key = "%s|%s" % (path, kind)
    frm, to = kind[len(T):].split("->")
    a = P.adt.get(frm.lstrip("&"))
    b = P.adt.get(to.lstrip("&"))
    if not a or not b:
        res.anchor("R17.2c", cfgname, "ADT of " + kind)
        return
    ok = frm.startswith("&") and to.startswith("&") and not frm.startswith("&mut")
    fa = [f["ty"] for v in a["variants"] for f in v["fields"]]
    fb = [f["ty"] for v in b["variants"] for f in v["fields"]]
    ok = ok and "transparent" in a["repr"] and "transparent" in b["repr"] and fa == fb and len(fa) == 1
    if not ok:
        res.fail("R17.2c", cfgname, key, "reference transmute %s requires shared refs between #[repr(transparent)] wrappers of one identical field (got repr %r/%r, fields %r/%r)" % (kind, a["repr"], b["repr"], fa, fb), where)
        return
    if path.endswith("as_ubig"):
        # must be on the Sign::Positive edge: a fact about IBig::sign / Repr::sign == Positive (0)
        good = False
        for c in cons:
            if c[0] == 'unary':
                X = sym.strip_casts(c[1])
                txt = sym.term_str(X, 400)
                if "sign" in txt.lower():
                    try:
                        if c[2](0) and not c[2](1):
                            good = True
                    except Exception:
                        pass
        if not good:
            res.fail("R17.2c", cfgname, key, "IBig::as_ubig casts &IBig to &UBig without being on the Sign::Positive edge", where)
            return
    res.ok("R17.2c", cfgname, key, sample=dict(function=path, cast=kind, reprs=[a["repr"], b["repr"]], field=fa))


# ---- R17.4 ----------------------------------------------------------------------------------------

def _nonzero_shape(t, S, cons, depth=0):
    """is the isize term non-zero by shape?  returns reason or None"""
    t0 = t
    if depth > 6:
        return None
    if t[0] == 'const' and isinstance(t[1], int) and t[1] != 0:
        return "non-zero literal %d" % t[1]
    if t[0] == 'cast':
        return _nonzero_shape(t[2], S, cons, depth + 1)
    if t[0] == 'var':
        # a local assigned on several paths (if-expression): every definition must be non-zero by shape
        defs = S.du.defs.get(t[1], [])
        whys = []
        for (bb, idx, node) in defs:
            if idx == "t" or node.get("k") != "as" or node["p"].get("p"):
                return None
            w = _nonzero_shape(S.rvalue(node["rv"]), S, cons, depth + 1)
            if not w:
                return None
            whys.append(w)
        return ("every definition: " + "; ".join(sorted(set(whys)))) if whys else None
    if t[0] == 'un' and t[1] == 'Neg':
        return _nonzero_shape(t[2], S, cons, depth + 1)
    if t[0] == 'bin' and t[1] in ('Add', 'AddWithOverflow', 'AddUnchecked'):
        a, b = t[2], t[3]
        for x, y in ((a, b), (b, a)):
            if x[0] == 'const' and isinstance(x[1], int) and x[1] > 0:
                y2 = sym.strip_casts(y)
                if y2[0] == 'bin' and y2[1] in ('Ne', 'Eq', 'Lt', 'Gt', 'Le', 'Ge'):
                    return "%d + (bool as isize)" % x[1]
    if t[0] == 'place' and t[2] == ('.0',) and t[1][0] == 'bin' and 'Overflow' in t[1][1]:
        return _nonzero_shape(('bin', 'Add', t[1][2], t[1][3]), S, cons, depth + 1)
    if t[0] == 'call' and t[1] == "core::num::nonzero::NonZero::<T>::get":
        return "an existing NonZero capacity (.get())"
    if t[0] == 'call' and t[1] == "core::num::<impl isize>::wrapping_neg":
        return _nonzero_shape(t[2][0], S, cons, depth + 1)
    if t[0] == 'place' and t[2] and t[2][0] == '.0' and t[1][0] == 'call' and t[1][1] == "dashu_int::repr::Repr::sign_capacity":
        return "abs capacity from sign_capacity()"
    if t[0] == 'call' and t[1] == "dashu_int::buffer::Buffer::default_capacity":
        return "default_capacity(n) = n + n/8 + 2 >= 2"
    if t[0] == 'call' and t[1] in ("core::slice::<impl [T]>::len",):
        # len() of a slice under a pattern that excluded the short lengths
        for c in cons:
            if c[0] == 'unary':
                X = sym.strip_casts(c[1])
                if X == t or (X[0] == 'un' and X[1] == 'PtrMetadata'):
                    try:
                        if not c[2](0):
                            return "slice len with 0 excluded by the dominating pattern"
                    except Exception:
                        pass
    if t[0] == 'un' and t[1] == 'PtrMetadata':
        for c in cons:
            if c[0] == 'unary':
                X = sym.strip_casts(c[1])
                if X[0] == 'un' and X[1] == 'PtrMetadata' and root_of(X[2]) == root_of(t[2]):
                    try:
                        if not c[2](0):
                            return "slice len with 0 excluded by the dominating pattern"
                    except Exception:
                        pass
    if t[0] == 'place' and t[2] == ('.0',) and t[1][0] == 'call' and t[1][1] == "dashu_int::repr::Repr::sign_capacity":
        return "abs capacity from sign_capacity()"
    return None


def _r17_4(res, cfgname, fn, S, cfg, kind, bb, where, node, cons):
    path = fn["p"]
    t = node
    arg = S.operand(t["a"][0])
    reason = _nonzero_shape(arg, S, cons)
    key = "%s|new_unchecked(%s)" % (path, sym.term_str(arg, 120))
    if reason:
        res.ok("R17.4", cfgname, key, sample=dict(function=path, operand=sym.term_str(arg, 120), reason=reason, at=where))
    else:
        res.fail("R17.4", cfgname, key, "NonZeroIsize::new_unchecked(%s) in %s: operand not provably non-zero by shape" % (sym.term_str(arg, 120), path), where)


# ---- R17.3 ----------------------------------------------------------------------------------------

CONSTRUCTORS = {
    REPR: {"dashu_int::repr::Repr::from_word", "dashu_int::repr::Repr::from_dword",
           "dashu_int::repr::Repr::from_static_words", "<dashu_int::repr::Repr as core::clone::Clone>::clone"},
    REPRDATA: {"dashu_int::repr::Repr::from_word", "dashu_int::repr::Repr::from_dword",
               "dashu_int::repr::Repr::from_static_words", "<dashu_int::repr::Repr as core::clone::Clone>::clone"},
    BUFFER: {"dashu_int::buffer::Buffer::allocate_exact"},
    "dashu_int::memory::Memory": {"dashu_int::memory::MemoryAllocation::memory", "dashu_int::memory::Memory::<'_>::allocate_slice_initialize"},
    "dashu_int::memory::MemoryAllocation": {"dashu_int::memory::MemoryAllocation::new"},
}
TRANSMUTE_INTO = {
    REPR: {"dashu_int::repr::Repr::from_buffer", "dashu_int::repr::Repr::ones", "<dashu_int::repr::Repr as core::clone::Clone>::clone"},
    BUFFER: {"dashu_int::repr::Repr::into_typed", "dashu_int::repr::Repr::into_buffer"},
}
FIELD_WRITERS = {
    (REPR, "capacity"): {"dashu_int::repr::Repr::with_sign", "dashu_int::repr::Repr::neg", "dashu_int::repr::Repr::into_sign_typed",
                          "<dashu_int::repr::Repr as core::clone::Clone>::clone_from"},
    (REPR, "data"): {"<dashu_int::repr::Repr as core::clone::Clone>::clone_from"},
    (BUFFER, "ptr"): {"dashu_int::buffer::Buffer::reallocate_raw"},
    (BUFFER, "capacity"): {"dashu_int::buffer::Buffer::reallocate_raw"},
    (BUFFER, "len"): {"dashu_int::buffer::Buffer::push", "dashu_int::buffer::Buffer::push_repeat", "dashu_int::buffer::Buffer::push_zeros_front",
                      "dashu_int::buffer::Buffer::push_slice", "dashu_int::buffer::Buffer::pop_zeros", "dashu_int::buffer::Buffer::truncate",
                      "dashu_int::buffer::Buffer::erase_front", "dashu_int::buffer::Buffer::clone_from_slice",
                      "<dashu_int::buffer::Buffer as core::clone::Clone>::clone", "<dashu_int::buffer::Buffer as core::clone::Clone>::clone_from"},
    ("dashu_int::memory::Memory", "start"): set(), ("dashu_int::memory::Memory", "end"): set(),
    ("dashu_int::memory::MemoryAllocation", "start"): set(), ("dashu_int::memory::MemoryAllocation", "layout"): set(),
}
PRIVATE_ADTS = [REPR, REPRDATA, BUFFER, "dashu_int::memory::Memory", "dashu_int::memory::MemoryAllocation"]


def _r17_3(res, P, cfgname):
    n = 0
    for fn in P.fns():
        if fn["crate"] == "dashu_macros":
            continue
        path = fn["p"]
        b = fn["mir"]
        for i, j, s in mir.iter_stmts(b):
            if s["k"] != "as":
                continue
            rv = s["rv"]
            if rv["k"] == "agg" and rv["ak"] == "adt" and rv["adt"] in CONSTRUCTORS:
                n += 1
                key = "construct %s in %s" % (rv["adt"], path)
                if path in CONSTRUCTORS[rv["adt"]]:
                    res.ok("R17.3", cfgname, key)
                else:
                    res.fail("R17.3", cfgname, key, "%s is constructed by a struct literal in %s, outside the reviewed constructor set" % (rv["adt"], path), span_loc(s["sp"]))
            if rv["k"] == "cast" and rv["ck"] == "transmute" and rv["ty"] in TRANSMUTE_INTO and rv["from"] != rv["ty"]:
                n += 1
                key = "transmute into %s in %s" % (rv["ty"], path)
                if path in TRANSMUTE_INTO[rv["ty"]]:
                    res.ok("R17.3", cfgname, key)
                else:
                    res.fail("R17.3", cfgname, key, "%s is produced by transmute in %s, outside the reviewed set" % (rv["ty"], path), span_loc(s["sp"]))
            # field writes
            projs = s["p"].get("p", [])
            for idx, e in enumerate(projs):
                if e.get("k") == "f" and (e.get("of"), e.get("n")) in FIELD_WRITERS:
                    # a write *through* this field (deeper projection, e.g. data.heap.0) also counts
                    n += 1
                    key = "write %s.%s in %s" % (e["of"], e["n"], path)
                    if path in FIELD_WRITERS[(e["of"], e["n"])]:
                        res.ok("R17.3", cfgname, key)
                    else:
                        res.fail("R17.3", cfgname, key, "field %s.%s is written in %s, outside the reviewed writer set" % (e["of"], e["n"], path), span_loc(s["sp"]))
                    break
            # &mut borrows of guarded fields (could be written through later)
            if rv["k"] in ("ref", "rawptr") and rv.get("m") in ("mut", "Mut"):
                for e in rv["p"].get("p", []):
                    if e.get("k") == "f" and (e.get("of"), e.get("n")) in FIELD_WRITERS and e["n"] not in ("data",):
                        n += 1
                        key = "&mut %s.%s in %s" % (e["of"], e["n"], path)
                        if path in FIELD_WRITERS[(e["of"], e["n"])] or (e["of"], e["n"], path) in MUT_BORROW_OK:
                            res.ok("R17.3", cfgname, key)
                        else:
                            res.fail("R17.3", cfgname, key, "field %s.%s is mutably borrowed in %s, outside the reviewed writer set" % (e["of"], e["n"], path), span_loc(s["sp"]))
                        break
    res.floor("R17.3", cfgname, n, 30, "constructor/writer sites")
    # field privacy
    for a in PRIVATE_ADTS:
        adt = P.adt.get(a)
        if adt is None:
            res.anchor("R17.3", cfgname, "ADT " + a)
            continue
        for v in adt["variants"]:
            for f in v["fields"]:
                key = "privacy %s.%s" % (a, f["n"])
                mod = a.rsplit("::", 1)[0]
                if f["vis"] == "restricted:" + mod:
                    res.ok("R17.3", cfgname, key)
                else:
                    res.fail("R17.3", cfgname, key, "field %s.%s must be private to its module (is %s)" % (a, f["n"], f["vis"]))
    for a, fld in (("dashu_int::ubig::UBig", "0"), ("dashu_int::ibig::IBig", "0")):
        adt = P.adt.get(a)
        if adt is None:
            res.anchor("R17.3", cfgname, "ADT " + a)
            continue
        f = adt["variants"][0]["fields"][0]
        key = "privacy %s.%s" % (a, fld)
        if f["vis"] != "pub":
            res.ok("R17.3", cfgname, key)
        else:
            res.fail("R17.3", cfgname, key, "%s.0 must not be public" % a)


MUT_BORROW_OK = {
    # zeroize support: NonNull::as_mut(&mut self.ptr) only to build the full-capacity slice; the
    # pointer itself is not modified
    (BUFFER, "ptr", "dashu_int::buffer::Buffer::as_full_slice"),
}


# ---- R17.8 ----------------------------------------------------------------------------------------

ALLOC_FNS = {"alloc::alloc::alloc", "alloc::alloc::dealloc", "alloc::alloc::realloc", "alloc::alloc::alloc_zeroed"}
DEALLOC_CALLERS = {"<dashu_int::buffer::Buffer as core::ops::drop::Drop>::drop",
                   "<dashu_int::repr::Repr as core::ops::drop::Drop>::drop",
                   "<dashu_int::repr::Repr as core::clone::Clone>::clone_from"}
STATIC_WORDS = {"dashu_int::repr::Repr::from_static_words", "dashu_int::ubig::UBig::from_static_words",
                "dashu_int::ibig::IBig::from_static_words", "dashu_float::repr::Repr::<B>::from_static_words",
                "dashu_ratio::repr::Repr::from_static_words", "dashu_ratio::rbig::Relaxed::from_static_words",
                "dashu_ratio::rbig::RBig::from_static_words"}


def _r17_8(res, P, cfgname):
    n = 0
    for fn in P.fns():
        if fn["crate"] == "dashu_macros":
            continue
        path = fn["p"]
        S = None
        for bb, t, f in mir.iter_calls(fn["mir"]):
            if not f:
                continue
            cp = f.get("rp") or f["p"]
            if cp in ALLOC_FNS:
                n += 1
                file = mir.span_file(fn["sp"])
                key = "%s called in %s" % (cp, path)
                if file.endswith(("integer/src/buffer.rs", "integer/src/memory.rs")):
                    res.ok("R17.8", cfgname, key)
                    # GlobalAlloc contract: realloc / dealloc must be given the layout the block was allocated
                    # with, i.e. one computed from the *current* capacity field, not from a requested capacity
                    if cp.endswith("alloc::realloc") and fn["crate"] == INT and len(t["a"]) >= 2 and "buffer::Buffer" in path \
                            and len(fn.get("inputs", [])) >= 2 and fn["inputs"][0].replace(" ", "") == "&mutdashu_int::buffer::Buffer":
                        S = S or sym.Sym(fn)
                        lay = S.operand(t["a"][1])
                        uses_field = sym.contains(lay, lambda x: isinstance(x, tuple) and x[0] == "place" and x[1] == ("arg", 1) and ".capacity" in x[2])
                        uses_param = sym.contains(lay, lambda x: x == ("arg", 2))
                        k2 = key + "|layout"
                        n += 1
                        if cp.endswith("alloc::dealloc") or (uses_field and not uses_param):
                            if uses_field or not uses_param:
                                res.ok("R17.8", cfgname, k2, sample=dict(function=path, layout=sym.term_str(lay, 100)))
                            else:
                                res.fail("R17.8", cfgname, k2, "%s passes %s a layout that is not computed from the buffer's current capacity" % (path, cp.rsplit("::", 1)[-1]), span_loc(t["sp"]))
                        else:
                            res.fail("R17.8", cfgname, k2, "%s passes realloc the layout `%s`: it must be the layout of the existing block (Layout::array(self.capacity)), not one built from the requested capacity — undefined behaviour under the GlobalAlloc contract" % (path, sym.term_str(lay, 90)), span_loc(t["sp"]))
                else:
                    res.fail("R17.8", cfgname, key, "allocator call %s outside buffer.rs/memory.rs (in %s)" % (cp, path), span_loc(t["sp"]))
            if cp == "dashu_int::buffer::Buffer::deallocate_raw":
                n += 1
                key = "deallocate_raw called in %s" % path
                if path not in DEALLOC_CALLERS:
                    res.fail("R17.8", cfgname, key, "Buffer::deallocate_raw called from %s (only Drop for Buffer/Repr and Repr::clone_from may free)" % path, span_loc(t["sp"]))
                    continue
                if path.startswith("<dashu_int::repr::Repr"):
                    S = S or sym.Sym(fn)
                    cfg = mir.cfg_of(fn["mir"])
                    cons = guards.constraints_at(S, cfg, bb)
                    # the capacity passed and the pointer freed belong to a Repr that is heap here
                    heap = any(cap_state(cons, r) == 'heap' for r in _all_roots(cons))
                    if heap:
                        res.ok("R17.8", cfgname, key + "|bb-guard", sample=dict(function=path, op="deallocate_raw", guard="cap > 2", at=span_loc(t["sp"])))
                    else:
                        res.fail("R17.8", cfgname, key + "|unguarded", "deallocate_raw in %s is not on the capacity > 2 edge (would free inline data)" % path, span_loc(t["sp"]))
                else:
                    res.ok("R17.8", cfgname, key)
            if cp in STATIC_WORDS:
                n += 1
                key = "%s called in %s" % (cp, path)
                if fn.get("unsafe"):
                    res.ok("R17.8", cfgname, key)
                elif fn["crate"] == "dashu_int" and path.endswith("::{constant#0}"):
                    res.ok("R17.8", cfgname, key, nontrivial=False)
                else:
                    res.fail("R17.8", cfgname, key, "%s (fabricates a heap-tagged Repr over static memory) is called from the safe fn %s: the obligation is swallowed" % (cp, path), span_loc(t["sp"]))
    # from_static_words family: unsafe + doc(hidden) public surface
    for p in STATIC_WORDS:
        fns = [f for f in P.fns() if f["p"] == p]
        if not fns:
            if p == "dashu_ratio::rbig::RBig::from_static_words":
                continue
            res.anchor("R17.8", cfgname, "fn " + p)
            continue
        f = fns[0]
        key = "unsafe fn " + p
        if f.get("unsafe"):
            res.ok("R17.8", cfgname, key)
        else:
            res.fail("R17.8", cfgname, key, "%s must be an unsafe fn (its result aliases static memory and must never be dropped or mutated)" % p, span_loc(f["sp"]))
    res.floor("R17.8", cfgname, n, 12, "allocator / deallocate_raw / from_static_words call sites")


LEVEL = LEVEL + ' Compile-fail witnesses (thorough): storage fields and tuple constructors are private, from_static_words is unsafe, &UBig -> &IBig hands out shared references only.'
TECHNIQUE = 'unsafe-operation inventory from MIR + HIR with per-kind discharge rules: dominating capacity / len guards surviving release, who-may-construct / who-may-write tables, NonZero provenance, copy-count = guarded quantity, sign typestate of UBig constructions, allocation pairing incl. clone_from (leak, stale sign read); compile-fail witnesses'
LEVEL = LEVEL + " (R17.5) the `len > 0` fact needed by pop_zeros / last-word reads is established by a forward must-dataflow that is killed by every write of len; (R17.8) every reallocation / deallocation inside a `&mut Buffer` method derives its Layout from the buffer's own stored capacity."
