"""Symbolic terms over MIR (path-insensitive expansion of single-assignment temporaries) and guard
facts (branch conditions attached to CFG edges).  No solver: terms are compared structurally.

Term grammar (tuples):
  ('arg', i)                         i-th argument (1-based local index)
  ('var', l)                         multiply-assigned local (opaque)
  ('const', value, ty)               scalar constant (int) or display string
  ('fnptr', path)
  ('place', base_term, (proj, ...))  proj: '*', '.field', '[]', 'as:Variant', '[k]', '[-k]'
  ('ref', term) / ('refmut', term) / ('rawptr', term)
  ('bin', op, a, b) / ('un', op, a) / ('cast', kind, a, ty, from_ty)
  ('call', callee_path, (args...), bb)
  ('agg', kind, name, (ops...))
  ('discr', term)
  ('unk', text)
"""
from . import mir


class Sym:
    def __init__(self, fn):
        self.fn = fn
        self.body = fn["mir"] if "mir" in fn else fn
        self.du = mir.defuse_of(self.body)
        self.argc = self.body["argc"]
        self._memo = {}
        # locals whose address is taken mutably: their value can change behind the single definition
        self.mut_borrowed = set()
        for bb in self.body["bbs"]:
            for st in bb["s"]:
                if st["k"] == "as" and st["rv"]["k"] in ("ref", "rawptr") and str(st["rv"].get("m", "")).lower().startswith("mut"):
                    pl = st["rv"]["p"]
                    if not any(e.get("k") == "deref" for e in pl.get("p", [])):
                        self.mut_borrowed.add(pl["l"])

    # ---- terms ---------------------------------------------------------------------------
    def local(self, l, depth=0):
        if l in self._memo:
            return self._memo[l]
        if depth > 60:
            return ('var', l)
        if 1 <= l <= self.argc:
            # arguments that are re-assigned are rare; treat as arg if no whole-local defs
            whole = [d for d in self.du.defs.get(l, []) if d[1] == 't' or not d[2]["p"].get("p")]
            if not whole:
                t = ('arg', l)
                self._memo[l] = t
                return t
        defs = self.du.defs.get(l, [])
        whole = [d for d in defs if d[1] == 't' or (d[2]["k"] == "as" and not d[2]["p"].get("p"))]
        partial = [d for d in defs if d not in whole]
        if len(whole) != 1 or partial or (l in self.mut_borrowed and not (1 <= l <= self.argc)):
            t = ('var', l)
            self._memo[l] = t
            return t
        self._memo[l] = ('var', l)  # cycle guard
        bb, idx, node = whole[0]
        if idx == 't':
            cal = mir.callee_path(node) or 'indirect'
            args = tuple(self.operand(a, depth + 1) for a in node["a"])
            t = ('call', cal, args, bb)
        else:
            t = self.rvalue(node["rv"], depth + 1)
        self._memo[l] = t
        return t

    def operand(self, op, depth=0):
        if op is None:
            return ('unk', 'none')
        c = op.get("c")
        if c is not None:
            if "fn" in c:
                return ('fnptr', c["fn"].get("rp") or c["fn"]["p"])
            v = mir.const_int(c)
            if v is not None:
                return ('const', v, c.get("ty"))
            if "uvp" in c:
                if "promoted" in c:
                    return ('const', 'promoted:%s[%d]' % (c["uvp"], c["promoted"]), c.get("ty"))
                return ('const', c["uvp"], c.get("ty"))
            return ('const', c.get("s"), c.get("ty"))
        p = op.get("cp") or op.get("mv")
        if p is None:
            return ('unk', 'op')
        return self.place(p, depth)

    def place(self, p, depth=0):
        base = self.local(p["l"], depth + 1)
        projs = []
        for e in p.get("p", []):
            k = e["k"]
            if k == "deref":
                # deref of a reference to a place collapses
                if not projs and base[0] in ('ref', 'refmut', 'rawptr'):
                    base = base[1]
                    continue
                projs.append('*')
            elif k == "f":
                projs.append('.' + e["n"])
            elif k == "idx":
                projs.append('[]')
            elif k == "cidx":
                projs.append(('[-%d]' if e["end"] else '[%d]') % e["off"])
            elif k == "sub":
                projs.append('[%d..%s%d]' % (e["from"], '-' if e["end"] else '', e["to"]))
            elif k == "dc":
                projs.append('as:' + e["n"])
            else:
                projs.append('?')
        # normalisations: (a op_with_overflow b).0 -> a op b ; tuple{..}.i -> component
        while projs:
            if base[0] == 'bin' and base[1].endswith('WithOverflow') and projs[0] == '.0':
                base = ('bin', base[1][:-len('WithOverflow')], base[2], base[3])
                projs = projs[1:]
            elif base[0] == 'agg' and base[1] == 'tuple' and projs[0][:1] == '.' and projs[0][1:].isdigit() \
                    and int(projs[0][1:]) < len(base[3]):
                base = base[3][int(projs[0][1:])]
                projs = projs[1:]
            else:
                break
        if not projs:
            return base
        if base[0] == 'place':
            return ('place', base[1], tuple(base[2]) + tuple(projs))
        return ('place', base, tuple(projs))

    def rvalue(self, rv, depth=0):
        k = rv["k"]
        if k == "use":
            return self.operand(rv["a"], depth)
        if k == "ref":
            t = self.place(rv["p"], depth)
            if t[0] == 'place' and t[2] == ('*',):
                return t[1]          # reborrow  &*x  ==  x
            return ('refmut' if rv["m"] == "mut" else 'ref', t)
        if k == "rawptr":
            return ('rawptr', self.place(rv["p"], depth))
        if k == "bin":
            return ('bin', rv["op"], self.operand(rv["a"], depth), self.operand(rv["b"], depth))
        if k == "un":
            return ('un', rv["op"], self.operand(rv["a"], depth))
        if k == "cast":
            return ('cast', rv["ck"], self.operand(rv["a"], depth), rv["ty"], rv.get("from"))
        if k == "discr":
            return ('discr', self.place(rv["p"], depth))
        if k == "agg":
            name = rv.get("adt") or rv.get("def") or rv["ak"]
            if rv.get("vn"):
                name = name + "::" + rv["vn"]
            return ('agg', rv["ak"], name, tuple(self.operand(o, depth) for o in rv["ops"]))
        if k == "repeat":
            return ('agg', 'repeat', 'repeat', (self.operand(rv["a"], depth),))
        return ('unk', rv.get("s", k))

    # ---- guards --------------------------------------------------------------------------
    def edge_facts(self):
        """list of (src_bb, dst_bb, fact) for every conditional edge.
        fact = ('cond', term, value)  where value is the matched switch value (int) or
               ('not', [values]) for the otherwise edge;   asserts give ('cond', term, expected)."""
        out = []
        for i, bb in enumerate(self.body["bbs"]):
            t = bb["t"]
            if t["k"] == "switch":
                term = self.operand(t["d"])
                vals = []
                for v, tgt in t["ts"]:
                    vals.append(int(v))
                    out.append((i, tgt, ('cond', term, int(v))))
                out.append((i, t["o"], ('cond', term, ('not', tuple(vals)))))
            elif t["k"] == "assert":
                term = self.operand(t["c"])
                out.append((i, t["t"], ('cond', term, 1 if t["e"] else 0)))
        return out


def strip_casts(t):
    while isinstance(t, tuple) and t and t[0] == 'cast':
        t = t[2]
    return t


def strip_refs(t):
    while isinstance(t, tuple) and t and t[0] in ('ref', 'refmut', 'rawptr', 'cast'):
        t = t[2] if t[0] == 'cast' else t[1]
    return t


def term_str(t, maxlen=200):
    s = _ts(t)
    return s if len(s) <= maxlen else s[:maxlen] + "..."


def _ts(t):
    if not isinstance(t, tuple):
        return str(t)
    k = t[0]
    if k == 'arg':
        return "arg%d" % t[1]
    if k == 'var':
        return "var%d" % t[1]
    if k == 'const':
        return str(t[1])
    if k == 'place':
        return _ts(t[1]) + "".join(t[2])
    if k in ('ref', 'refmut', 'rawptr'):
        return "&" + _ts(t[1])
    if k == 'bin':
        return "(%s %s %s)" % (_ts(t[2]), t[1], _ts(t[3]))
    if k == 'un':
        return "%s(%s)" % (t[1], _ts(t[2]))
    if k == 'cast':
        return "(%s as %s)" % (_ts(t[2]), t[3])
    if k == 'call':
        return "%s(%s)" % (t[1], ", ".join(_ts(a) for a in t[2]))
    if k == 'agg':
        return "%s{%s}" % (t[2], ", ".join(_ts(a) for a in t[3]))
    if k == 'discr':
        return "discr(%s)" % _ts(t[1])
    if k == 'fnptr':
        return "fn:" + t[1]
    return str(t)


def subterms(t):
    """all subterms, pre-order"""
    yield t
    if isinstance(t, tuple):
        for x in t[1:]:
            if isinstance(x, tuple):
                if x and isinstance(x[0], str):
                    yield from subterms(x)
                else:
                    for y in x:
                        if isinstance(y, tuple):
                            yield from subterms(y)


def contains(t, pred):
    return any(pred(s) for s in subterms(t))


def calls_in(t):
    return [s for s in subterms(t) if isinstance(s, tuple) and s and s[0] == 'call']


def edge_dominates(cfg, edge, target):
    """every path entry -> target uses the CFG edge (a, b)"""
    a, b = edge
    if target == 0:
        return False
    if target not in cfg.reachable():
        return True
    # remove the edge and test reachability
    seen = {0}
    st = [0]
    while st:
        x = st.pop()
        if x == target:
            return False
        for s in cfg.succ[x]:
            if x == a and s == b:
                # other parallel edges a->b with different labels are merged in succ; the caller must
                # make sure the fact holds for every label leading to b (see facts_at)
                continue
            if s not in seen:
                seen.add(s)
                st.append(s)
    return True


def facts_at(symfn, cfg, target):
    """facts guaranteed on every path from entry to block `target` (edge dominance).  For switch
    blocks with several labels going to the same successor the facts are merged into a 'oneof'."""
    facts = []
    ef = symfn.edge_facts()
    by_edge = {}
    for a, b, f in ef:
        by_edge.setdefault((a, b), []).append(f)
    for (a, b), fs in by_edge.items():
        if not edge_dominates(cfg, (a, b), target):
            continue
        if len(fs) == 1:
            facts.append(fs[0])
        else:
            term = fs[0][1]
            vals = []
            neg = None
            for f in fs:
                if isinstance(f[2], tuple):
                    neg = f[2]
                else:
                    vals.append(f[2])
            if neg is None:
                facts.append(('cond', term, ('oneof', tuple(vals))))
            else:
                # otherwise-edge merged with explicit values: not one of (neg - vals)
                rest = tuple(v for v in neg[1] if v not in vals)
                facts.append(('cond', term, ('not', rest)))
    return facts
