"""E2 — compile-fail witnesses with compiling twins (thorough tier).

A throw-away library crate (generated under /tmp, path-depending on the analysed tree, removed with
its build output afterwards) carries one doc-test per witness.  Each `compile_fail,E0xxx` witness is
paired with a compiling twin that differs only in the offending line, so that a witness whose path
is merely wrong does not pass.  Run with `cargo +nightly test --doc --offline` (the stable
toolchain ignores the error code).  Results are cached per tree hash."""
import json
import os
import re
import shutil
import subprocess
import tempfile

from . import facts

# (id, property, rule, error code or None, prelude, failing line, twin line, what it witnesses)
W = [
    ("w17_private_field", "C17", "R17.3w", "E0616", "let x = dashu::integer::UBig::ONE;", "let _r = &x.0;", "let _r = &x;",
     "the representation field of UBig is private: no code outside the crate can touch the storage"),
    ("w17_private_ctor", "C17", "R17.3w", "E0423", "use dashu::integer::UBig;", "let _x = UBig(unreachable!());", "let _x = UBig::from(1u8);",
     "UBig cannot be built by its tuple constructor outside the crate"),
    ("w17_ibig_private_field", "C17", "R17.3w", "E0616", "let x = dashu::integer::IBig::ONE;", "let _r = &x.0;", "let _r = &x;",
     "the representation field of IBig is private"),
    ("w17_static_words_unsafe", "C17", "R17.8w", "E0133", "use dashu::integer::UBig; static W: [dashu::integer::Word; 3] = [1, 2, 3];",
     "let _x: UBig = UBig::from_static_words(&W);", "let _x = core::mem::ManuallyDrop::new(unsafe { UBig::from_static_words(&W) });",
     "from_static_words (aliases static memory) can only be called in an unsafe context"),
    ("w17_as_ibig_shared", "C17", "R17.2w", "E0308", "use dashu::integer::{UBig, IBig}; let a = UBig::ONE;", "let _b: &mut IBig = a.as_ibig();", "let _b: &IBig = a.as_ibig();",
     "the &UBig -> &IBig cast only hands out shared references"),
    ("w13_reduced_outlives_ring", "C13", "R13.3w", "E0597", "use dashu::integer::{UBig, fast_div::ConstDivisor};",
     "let r; { let ring = ConstDivisor::new(UBig::from(7u8)); r = ring.reduce(3u8); } let _ = r.residue();",
     "let ring = ConstDivisor::new(UBig::from(7u8)); let r = ring.reduce(3u8); let _ = r.residue();",
     "a Reduced value cannot outlive its ConstDivisor, so the ring identity test never sees a dangling ring"),
    ("w05_no_base_mixing", "C05", "R05.2w", "E0277", "use dashu::float::{FBig, round::mode::Zero}; let a = FBig::<Zero, 2>::ONE;",
     "let b = FBig::<Zero, 10>::ONE; let _ = a + b;", "let b = FBig::<Zero, 2>::ONE; let _ = a + b;",
     "floats of different bases do not mix in one operator"),
    ("w05_fbig_no_hash", "C05", "R05.2w", "E0277", "use dashu::float::DBig; fn needs_hash<T: core::hash::Hash>(_: &T) {}",
     "needs_hash(&DBig::ONE);", "needs_hash(&dashu::integer::UBig::ONE);",
     "FBig implements no Hash (equal values of different precision would hash differently); UBig does"),
    ("w05_relaxed_no_hash", "C05", "R05.2w", "E0277", "use dashu::rational::{RBig, Relaxed}; fn needs_hash<T: core::hash::Hash>(_: &T) {}",
     "needs_hash(&Relaxed::ONE);", "needs_hash(&RBig::ONE);",
     "Relaxed implements no Hash (its values are not canonical); RBig does"),
    # ---- C20: literals outside the grammar are compile errors (a proc-macro panic has no error code)
    ("w20_ubig_negative", "C20", "R20.6w", None, "use dashu::ubig;", "let _ = ubig!(-1);", "let _ = ubig!(1);", "ubig! rejects a sign"),
    ("w20_ubig_bad_base", "C20", "R20.6w", None, "use dashu::ubig;", "let _ = ubig!(12 base 1);", "let _ = ubig!(12 base 3);", "radix 1 is rejected"),
    ("w20_ubig_bad_digit", "C20", "R20.6w", None, "use dashu::ubig;", "let _ = ubig!(1z);", "let _ = ubig!(1f base 16);", "a digit outside the radix is rejected"),
    ("w20_ubig_empty", "C20", "R20.6w", None, "use dashu::ubig;", "let _ = ubig!();", "let _ = ubig!(0);", "an empty literal is rejected"),
    ("w20_ibig_double_sign", "C20", "R20.6w", None, "use dashu::ibig;", "let _ = ibig!(- - 1);", "let _ = ibig!(-1);", "two signs are rejected"),
    ("w20_dbig_two_points", "C20", "R20.6w", None, "use dashu::dbig;", "let _ = dbig!(1.2.3);", "let _ = dbig!(1.23);", "two radix points are rejected"),
    ("w20_rbig_no_denominator", "C20", "R20.6w", None, "use dashu::rbig;", "let _ = rbig!(1/);", "let _ = rbig!(1/2);", "a missing denominator is rejected"),
    ("w20_rbig_only_tilde", "C20", "R20.6w", None, "use dashu::rbig;", "let _ = rbig!(~);", "let _ = rbig!(~1/2);", "a lone relaxed marker is rejected"),
    ("w20_ibig_minus_plus", "C20", "R20.6w", None, "use dashu::ibig;", "let _ = ibig!(- + 1);", "let _ = ibig!(+1);", "a sign pair is rejected"),
    ("w20_rbig_no_slash", "C20", "R20.6w", None, "use dashu::rbig;", "let _ = rbig!(1 2);", "let _ = rbig!(1/2);", "a denominator needs the slash"),
    ("w20_rbig_no_numerator", "C20", "R20.6w", None, "use dashu::rbig;", "let _ = rbig!(/2);", "let _ = rbig!(1/2);", "a missing numerator is rejected"),
    ("w20_rbig_double_sign", "C20", "R20.6w", None, "use dashu::rbig;", "let _ = rbig!(- -1/2);", "let _ = rbig!(-1/2);", "two numerator signs are rejected"),
    ("w20_rbig_den_double_sign", "C20", "R20.6w", None, "use dashu::rbig;", "let _ = rbig!(1/ - -2);", "let _ = rbig!(1/-2);", "two denominator signs are rejected"),
    ("w20_fbig_double_sign", "C20", "R20.6w", None, "use dashu::fbig;", "let _ = fbig!(- -0x1p1);", "let _ = fbig!(-0x1p1);", "two signs on a float are rejected"),
    ("w20_dbig_double_sign", "C20", "R20.6w", None, "use dashu::dbig;", "let _ = dbig!(- -1.5);", "let _ = dbig!(-1.5);", "two signs on a decimal float are rejected"),
    ("w20_ubig_trailing", "C20", "R20.6w", None, "use dashu::ubig;", "let _ = ubig!(12 34);", "let _ = ubig!(1234);", "two literals are rejected"),
]


def _gen(dst, repo):
    os.makedirs(os.path.join(dst, "src"))
    with open(os.path.join(dst, "Cargo.toml"), "w") as fh:
        fh.write('[package]\nname = "dashu-witness"\nversion = "0.0.0"\nedition = "2021"\n\n[lib]\n\n[dependencies]\n'
                 'dashu = { path = "%s" }\n\n[workspace]\n' % repo)
    lock = os.path.join(repo, "Cargo.lock")
    if os.path.exists(lock):
        shutil.copy(lock, os.path.join(dst, "Cargo.lock"))
    out = ["//! generated by /verif/rules/witness.py — do not edit\n"]
    for (wid, prop, rule, code, prelude, bad, good, what) in W:
        attr = "compile_fail,%s" % code if code else "compile_fail"
        out.append("/// %s\n/// ```%s\n/// %s\n/// %s\n/// ```\npub fn %s() {}\n" % (what, attr, prelude, bad, wid))
        out.append("/// compiling twin of `%s`\n/// ```\n/// %s\n/// %s\n/// ```\npub fn %s_twin() {}\n" % (wid, prelude, good, wid))
    with open(os.path.join(dst, "src", "lib.rs"), "w") as fh:
        fh.write("\n".join(out))


def results():
    th = facts.tree_hash()
    cache = os.path.join(facts.CACHE, th, "witness.json")
    if os.path.exists(cache):
        return json.load(open(cache))
    tmp = tempfile.mkdtemp(prefix="dashu-witness-")
    try:
        crate = os.path.join(tmp, "w")
        _gen(crate, facts.REPO)
        env = dict(os.environ)
        env["CARGO_TARGET_DIR"] = os.path.join(tmp, "target")
        env["CARGO_NET_OFFLINE"] = "true"
        p = subprocess.run(["cargo", "+nightly", "test", "--doc", "--offline"], cwd=crate, env=env,
                           stdout=subprocess.PIPE, stderr=subprocess.STDOUT, text=True)
        res = {}
        for m in re.finditer(r"^test src/lib\.rs - (\w+) \(line \d+\)(?: - compile fail)? \.\.\. (\w+)", p.stdout, re.M):
            res[m.group(1)] = m.group(2)
        if not res:
            res["__error__"] = p.stdout[-1500:]
        os.makedirs(os.path.dirname(cache), exist_ok=True)
        json.dump(res, open(cache, "w"), indent=1)
        return res
    finally:
        shutil.rmtree(tmp, ignore_errors=True)


def run(res, prop):
    mine = [w for w in W if w[1] == prop]
    if not mine:
        return
    r = results()
    rules = sorted({w[2] for w in mine})
    for rid in rules:
        res.rule(rid, "compile-fail witnesses (E2): the violating program is rejected by the compiler with the expected error code, its twin compiles")
    if "__error__" in r:
        res.anchor(rules[0], "witness", "doc-test run failed: " + r["__error__"][-300:])
        return
    for (wid, _p, rid, code, prelude, bad, good, what) in mine:
        twin = r.get(wid + "_twin")
        w = r.get(wid)
        key = "witness " + wid
        if twin != "ok":
            res.anchor(rid, "witness", "%s: the compiling twin does not compile (%s) — the witness is broken, not the property" % (wid, twin))
        elif w == "ok":
            res.ok(rid, "witness", key, sample=dict(witness=wid, error_code=code, rejected=bad, accepted=good, shows=what))
        else:
            res.fail(rid, "witness", key, "the program `%s` now compiles%s: %s no longer holds at the type level" % (bad, " (or fails with another error than %s)" % code if code else "", what))
