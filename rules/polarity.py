"""Bound-polarity analysis (a small type system over symbolic terms).

`EstimatedLog2::log2_bounds()` returns a pair (lower bound, upper bound) of log2|x|.  Code that draws a
*decision* from such estimates is only sound when it is conservative:

    conclude a > b   only from   lower(a) > upper(b)
    conclude a < b   only from   upper(a) < lower(b)

and a function that itself promises a bound (`log2_bounds` impls, `*_ub`, `*_lb`) must build the lower
component from lower bounds only and the upper component from upper bounds only.  Mixing the two
(`lb + c > b_lb * p`) type-checks, compiles and is right on all but a thin band of inputs, which is
why tests do not see it; the polarity of every term is, however, visible in the code.

polarity(t) in {LB, UB, EX, MIX, None}: LB = never above the true value, UB = never below, EX = exact
(constants, integer casts), MIX = built from both kinds (no guarantee), None = not a bound at all.
Monotone operations propagate polarity: +, - (flips the subtrahend), * and / by a term of known sign
(sign taken from constants, unsigned casts or edge facts `x >= 0` / `x < 0` dominating the definition),
negation (flips), `as` casts (monotone)."""
from . import mir, sym, guards

LB, UB, EX, MIX = "lower", "upper", "exact", "mixed"
_FLIP = {LB: UB, UB: LB, EX: EX, MIX: MIX, None: None}
POSITIVE_CONSTS = ("consts::LOG10_2", "consts::LOG2_10", "consts::LOG2_E", "consts::LN_2", "consts::LN_10")
# reviewed constants 0 < c << 1 (value read in the source; one line of reason each)
SMALL_POSITIVE = {"dashu_int::log::repr::log2_bounds_large::ADJUST": "const ADJUST: f32 = 2. * f32::EPSILON"}
UNSIGNED = ("usize", "u8", "u16", "u32", "u64", "u128")


def _small_positive_tail(name):
    """the reviewed constant is a `const` item nested in a function: its path follows a rename of that function.
    Accept the same constant name anywhere below the module of the reviewed one."""
    for k in SMALL_POSITIVE:
        module = k.rsplit("::", 2)[0]           # dashu_int::log::repr
        if name.startswith(module + "::") and name.endswith("::" + k.rsplit("::", 1)[-1]):
            return True
    return False


def flip(p):
    return _FLIP[p]


def join(a, b):
    """polarity of a + b"""
    if a is None or b is None:
        return None
    if MIX in (a, b):
        return MIX
    if a == EX:
        return b
    if b == EX:
        return a
    return a if a == b else MIX


class Ctx:
    def __init__(self, fn):
        self.fn = fn
        self.body = fn["mir"]
        self.S = sym.Sym(fn)
        self.cfg = mir.cfg_of(self.body)
        self.du = mir.defuse_of(self.body)
        self._cons = {}
        self.notes = []

    def cons(self, bb):
        if bb not in self._cons:
            self._cons[bb] = guards.constraints_at(self.S, self.cfg, bb)
        return self._cons[bb]


def _is_bounds_call(t):
    return isinstance(t, tuple) and t and t[0] == "call" and t[1].endswith("::log2_bounds")


def sign_of(t, ctx, bb):
    """+1 (>= 0), -1 (<= 0) or None"""
    t0 = t
    t = sym.strip_casts(t)
    if not isinstance(t, tuple):
        return None
    if t[0] == "const":
        v = t[1]
        if isinstance(v, (int, float)):
            return 1 if v >= 0 else -1
        if isinstance(v, str):
            if v.endswith(POSITIVE_CONSTS):
                return 1
            try:
                return 1 if float(v.replace("f32", "").replace("f64", "")) >= 0 else -1
            except ValueError:
                return None
    if t[0] == "bin" and t[1] in ("Add", "Sub"):
        # 1 +- (reviewed tiny positive constant) is positive
        a, b = t[2], t[3]
        if a[0] == "const" and b[0] == "const" and isinstance(b[1], str) and (b[1] in SMALL_POSITIVE or _small_positive_tail(b[1])):
            try:
                if float(str(a[1]).replace("f32", "").replace("f64", "")) >= 1:
                    return 1
            except ValueError:
                pass
    # an unsigned value cast to float
    x = t0
    while isinstance(x, tuple) and x[0] == "cast":
        inner = x[2]
        if len(x) > 4 and x[4] in UNSIGNED:
            return 1
        x = inner
    p = polarity(t, ctx, bb)
    if p in (LB, UB):
        return 1           # log2 bounds of integers >= 1 / bases >= 2 are non-negative
    if bb is not None:
        for c in ctx.cons(bb):
            if c[0] == "rel":
                _, op, A, B = c
                A, B = sym.strip_casts(A), sym.strip_casts(B)
                if A == t and B[0] == "const" and B[1] == 0:
                    if op in ("Ge", "Gt"):
                        return 1
                    if op in ("Lt", "Le"):
                        return -1
                if B == t and A[0] == "const" and A[1] == 0:
                    if op in ("Le", "Lt"):
                        return 1
                    if op in ("Gt", "Ge"):
                        return -1
    return None


def _type_of(t, ctx):
    """type of a local-rooted term when cheaply known"""
    if isinstance(t, tuple) and t[0] in ("var",):
        try:
            return ctx.body["locals"][t[1]]["ty"]
        except Exception:
            return None
    if isinstance(t, tuple) and t[0] == "cast":
        return t[3]
    return getattr(ctx, "type_hint", {}).get(t)


def polarity(t, ctx, bb=None, depth=0):
    if depth > 12 or not isinstance(t, tuple):
        return None
    k = t[0]
    if k == "const":
        return EX
    if k == "cast":
        p = polarity(t[2], ctx, bb, depth + 1)
        return p if p is not None else EX if _intlike(t[2]) else None
    if k == "place":
        base, projs = t[1], list(t[2])
        if _is_bounds_call(base) and projs:
            if projs[0] == ".0":
                return LB
            if projs[0] == ".1":
                return UB
        if base[0] == "var" and projs and projs[0] in (".0", ".1"):
            # component of a tuple local assigned on several paths
            return _var_polarity(base[1], ctx, depth, comp=int(projs[0][1:]))
        if base[0] == "agg" and projs and projs[0] in (".0", ".1"):
            try:
                return polarity(base[3][int(projs[0][1:])], ctx, bb, depth + 1)
            except Exception:
                return None
        return None
    if k == "var":
        return _var_polarity(t[1], ctx, depth)
    if k == "un" and t[1] == "Neg":
        return flip(polarity(t[2], ctx, bb, depth + 1))
    if k == "bin":
        op, a, b = t[1], t[2], t[3]
        pa, pb = polarity(a, ctx, bb, depth + 1), polarity(b, ctx, bb, depth + 1)
        if pa in (None, EX) and pb in (None, EX):
            return EX if (pa == EX and pb == EX) else None
        # a bound combined with a non-bound numeric term: treat the other side as exact
        pa = EX if pa is None else pa
        pb = EX if pb is None else pb
        if op == "Add":
            return join(pa, pb)
        if op == "Sub":
            return join(pa, flip(pb))
        if op in ("Mul", "Div"):
            sa, sb = sign_of(a, ctx, bb), sign_of(b, ctx, bb)
            if op == "Div":
                # a / b: increasing in a (b > 0), decreasing in b (a >= 0)
                if sb is None or sa is None:
                    ctx.notes.append("sign of an operand of `/` unknown: " + sym.term_str(t, 80))
                    return MIX
                ra = pa if sb > 0 else flip(pa)
                rb = flip(pb) if sa > 0 else pb
                if sb < 0 and pb != EX:
                    return MIX
                return join(ra, rb)
            # a * b: increasing in a when b >= 0, in b when a >= 0
            if pb == EX and pa != EX:
                if sb is None:
                    ctx.notes.append("sign of the multiplier unknown: " + sym.term_str(b, 60))
                    return MIX
                return pa if sb > 0 else flip(pa)
            if pa == EX and pb != EX:
                if sa is None:
                    ctx.notes.append("sign of the multiplier unknown: " + sym.term_str(a, 60))
                    return MIX
                return pb if sa > 0 else flip(pb)
            if sa is None or sb is None:
                return MIX
            ra = pa if sb > 0 else flip(pa)
            rb = pb if sa > 0 else flip(pb)
            return join(ra, rb)
        return None
    if k == "call":
        # monotone float helpers
        name = t[1]
        if name.endswith(("::floor", "::ceil", "::round", "::trunc")) and t[2]:
            return polarity(t[2][0], ctx, bb, depth + 1)
        # directed one-ulp steps: next_down of a lower bound (or of an approximation) is a lower bound
        if name.endswith("::log::next_down") and t[2]:
            p = polarity(t[2][0], ctx, bb, depth + 1)
            return MIX if p in (UB, MIX) else LB
        if name.endswith("::log::next_up") and t[2]:
            p = polarity(t[2][0], ctx, bb, depth + 1)
            return MIX if p in (LB, MIX) else UB
        return None
    return None


def _intlike(t):
    return True


def _var_polarity(l, ctx, depth, comp=None):
    """a local defined on several paths: all definitions must agree (each evaluated under the facts of
    its own block)"""
    defs = ctx.du.defs.get(l, [])
    if not defs or depth > 10:
        return None
    out = None
    first = True
    for (bb, idx, node) in defs:
        if bb not in ctx.cfg.reachable():
            continue
        if idx == "t":
            if mir.callee_path(node).endswith("::log2_bounds") and comp is not None:
                p = LB if comp == 0 else UB
                if first:
                    out, first = p, False
                elif p != out:
                    if out == EX:
                        out = p
                    elif p != EX:
                        return MIX
                continue
            return None
        if node["k"] != "as":
            return None
        if node["p"].get("p"):
            # field-wise definition `_l.0 = ..`
            pj = node["p"]["p"]
            if comp is not None and len(pj) == 1 and pj[0].get("k") == "field" and pj[0].get("f") != comp:
                continue
        t = ctx.S.rvalue(node["rv"])
        if comp is not None and not node["p"].get("p"):
            if isinstance(t, tuple) and t[0] == "agg":
                try:
                    t = t[3][comp]
                except Exception:
                    return None
            else:
                t = ("place", t, (".%d" % comp,))
        p = polarity(t, ctx, bb, depth + 1)
        if first:
            out, first = p, False
        elif p != out:
            if p is None or out is None:
                return None
            if EX in (p, out):
                out = p if out == EX else out
            else:
                return MIX
    return out


CMP = {"Gt": (LB, UB), "Ge": (LB, UB), "Lt": (UB, LB), "Le": (UB, LB)}


def comparisons(fn):
    """yield (bb, op, a, b, pa, pb, ok, ctx) for every comparison with a bound-polar side"""
    ctx = Ctx(fn)
    for i, j, s in mir.iter_stmts(fn["mir"]):
        if s["k"] != "as" or s["rv"]["k"] != "bin" or s["rv"].get("op") not in CMP:
            continue
        t = ctx.S.rvalue(s["rv"])
        if not (isinstance(t, tuple) and t[0] == "bin"):
            continue
        a, b = t[2], t[3]
        pa, pb = polarity(a, ctx, i), polarity(b, ctx, i)
        if pa not in (LB, UB, MIX) and pb not in (LB, UB, MIX):
            continue
        wa, wb = CMP[t[1]]
        both = pa in (LB, UB, MIX) and pb in (LB, UB, MIX)
        if both:
            verdict = "ok" if (pa == wa and pb == wb) else "bad"
        elif MIX in (pa, pb):
            verdict = "bad"
        else:
            # a bound against an exact value: conservative orientation is decided, the opposite
            # orientation may be a sign test / floor adjustment of the estimate itself: not decided
            verdict = "ok" if (pa in (wa, EX, None)) and (pb in (wb, EX, None)) else "undecided"
        yield i, t[1], a, b, pa, pb, verdict, ctx, s


def returns(fn, comps):
    """polarity of each returned value definition: yields (bb, [polarity per component], term, ctx).
    comps = None for a scalar return, or the tuple arity."""
    ctx = Ctx(fn)
    for (bb, idx, node) in ctx.du.defs.get(0, []):
        if bb not in ctx.cfg.reachable():
            continue
        if idx == "t":
            callee = mir.callee_path(node)
            yield bb, None, ("call", callee, ()), ctx, node
            continue
        if node["k"] != "as":
            continue
        if node["p"].get("p"):
            continue
        t = ctx.S.rvalue(node["rv"])
        if comps is None:
            yield bb, [polarity(t, ctx, bb)], t, ctx, node
        else:
            ps = []
            for c in range(comps):
                if isinstance(t, tuple) and t[0] == "agg":
                    ps.append(polarity(t[3][c], ctx, bb))
                else:
                    ps.append(polarity(("place", t, (".%d" % c,)), ctx, bb))
            yield bb, ps, t, ctx, node


# ---------------------------------------------------------------------------------------------
# the rule, shared by C10 / C03 (rounding decisions), C05 (comparison shortcuts) and C19 (no_std tables
# make the bounds coarser, so a non-conservative pairing bites much earlier there)
CRATES = ("dashu_float", "dashu_ratio", "dashu_int")
RULE_TEXT = ("bound polarity: a decision drawn from log2 estimates compares a lower bound of one side with an upper "
             "bound of the other (lb(a) > ub(b) / ub(a) < lb(b)); functions that return bounds (log2_bounds*, *_lb, "
             "*_ub) build each component from estimates of the matching polarity only")


def rule(res, P, cfgname, rid, crates=CRATES, floors=(10, 3, 2)):
    res.rule(rid, RULE_TEXT)
    ncmp = nprod = nnamed = 0
    for f in P.fns():
        if f["crate"] not in crates or not f.get("mir"):
            continue
        name = f["p"].rsplit("::", 1)[-1]
        fnkey = f["p"]
        k = 0
        for (bb, op, a, b, pa, pb, verdict, ctx, s) in comparisons(f):
            k += 1
            key = "cmp %s #%d %s(%s, %s)" % (fnkey, k, op, pa, pb)
            both = pa in (LB, UB, MIX) and pb in (LB, UB, MIX)
            if verdict == "ok":
                if both:
                    ncmp += 1
                res.ok(rid, cfgname, key, nontrivial=both, sample=dict(function=fnkey, comparison="%s %s %s" % (sym.term_str(a, 70), op, sym.term_str(b, 70)), polarity=[pa, pb]))
            elif verdict == "undecided":
                res.note("%s: `%s %s %s` tests a %s bound against an exact value in the non-conservative orientation (sign test / floor adjustment of the estimate): not decided" % (fnkey, sym.term_str(a, 50), op, sym.term_str(b, 30), pa or pb))
            else:
                want = CMP[op]
                res.fail(rid, cfgname, "cmp %s #%d" % (fnkey, k),
                         "%s decides `%s %s %s` with polarities (%s, %s); a sound shortcut needs (%s, %s): near the boundary the estimate band makes the fast path disagree with the exact comparison%s" % (
                             fnkey, sym.term_str(a, 60), op, sym.term_str(b, 60), pa, pb, want[0], want[1],
                             (" [" + "; ".join(ctx.notes[:2]) + "]") if ctx.notes else ""), mir.span_loc(s["sp"]))
        if name.startswith("log2_bounds") and f["crate"] in crates:
            k = 0
            for bb, ps, t, ctx, node in returns(f, 2):
                k += 1
                key = "bounds %s #%d" % (fnkey, k)
                if ps is None:
                    if t[1].rsplit("::", 1)[-1].startswith("log2_bounds"):
                        res.ok(rid, cfgname, key + " delegates", nontrivial=False)
                    else:
                        res.note("%s returns the result of %s: not decided" % (fnkey, t[1]))
                    continue
                bad = (ps[0] in (UB, MIX)) or (ps[1] in (LB, MIX))
                if bad:
                    res.fail(rid, cfgname, key, "%s returns (%s) whose components have polarity (%s, %s); log2_bounds must return (lower, upper)" % (fnkey, sym.term_str(t, 120), ps[0], ps[1]), mir.span_loc(node.get("sp", f["sp"])))
                elif None in ps:
                    res.note("%s: component polarity of `%s` not decided" % (fnkey, sym.term_str(t, 80)))
                else:
                    if LB in ps or UB in ps:
                        nprod += 1
                    res.ok(rid, cfgname, key, nontrivial=(LB in ps or UB in ps), sample=dict(function=fnkey, returns=sym.term_str(t, 120), polarity=ps))
        elif name.endswith(("_ub", "_lb")) and f["crate"] in crates:
            want = UB if name.endswith("_ub") else LB
            k = 0
            for bb, ps, t, ctx, node in returns(f, None):
                k += 1
                key = "named %s #%d" % (fnkey, k)
                if ps is None or ps[0] is None:
                    continue
                if ps[0] in (want, EX):
                    if ps[0] == want:
                        nnamed += 1
                    res.ok(rid, cfgname, key, nontrivial=(ps[0] == want), sample=dict(function=fnkey, returns=sym.term_str(t, 100), polarity=ps[0]))
                else:
                    res.fail(rid, cfgname, key, "%s returns `%s` of polarity %s; its name promises a %s bound" % (fnkey, sym.term_str(t, 100), ps[0], want), mir.span_loc(node.get("sp", f["sp"])))
    res.floor(rid, cfgname, ncmp, floors[0], "conservative two-sided bound comparisons")
    res.floor(rid, cfgname, nprod, floors[1], "bound-producing functions with decided polarity")
    res.floor(rid, cfgname, nnamed, floors[2], "*_ub / *_lb functions with decided polarity")
