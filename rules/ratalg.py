"""ALG — tiny algebra over big-integer terms used by the rational rules: abstraction of a symbolic
term to a sign-insensitive expression over atoms, and a syntactic coprimality prover.

Expressions (tuples):
  ('num', k) / ('den', k)     numerator / denominator of rational operand k
  ('int', k)                  integer operand k
  ('one',) ('zero',) ('unit',)
  ('mul', (x, y, ...))        sorted factors
  ('div', x, g)               x / g
  ('gcd', frozenset({x, y}))
  ('pm', x, y)                x + y or x - y (sign-insensitive)
  ('pow', x, n)               n is an opaque exponent key
  ('opaque', text)
"""
from . import sym

IDENT_SUFFIX = (
    "as core::clone::Clone>::clone", "as core::convert::Into<U>>::into", "as core::convert::From<T>>::from",
    "as dashu_base::sign::Abs>::abs", "as dashu_base::sign::UnsignedAbs>::unsigned_abs",
    "as core::ops::arith::Neg>::neg",
)


def _is(path, trait, method):
    return ("impl " + trait) in path and path.endswith("::" + method)


class Abstraction:
    def __init__(self, operand_kind, ordered=False):
        """operand_kind(term) -> ('num'|'den'|'int', k, conditional_arg or None) or None for a leaf.
        ordered=True keeps the operand order of subtractions (('sub', x, y)) for sibling comparison"""
        self.operand_kind = operand_kind
        self.ordered = ordered
        self.used = set()       # atoms used

    def ab(self, t, depth=0):
        if depth > 40 or not isinstance(t, tuple):
            return ('opaque', str(t))
        leaf = self.operand_kind(t)
        if leaf is not None:
            return leaf
        k = t[0]
        if k in ('ref', 'refmut'):
            return self.ab(t[1], depth + 1)
        if k == 'const':
            s = str(t[1])
            if s.endswith("::ONE") or s == "1":
                return ('one',)
            if s.endswith("::ZERO") or s == "0":
                return ('zero',)
            if s.endswith("::NEG_ONE"):
                return ('one',)
            return ('opaque', s)
        if k == 'place':
            base, projs = t[1], t[2]
            if base[0] == 'call' and base[1] == "dashu_int::ibig::IBig::into_parts" and projs == ('.1',):
                return self.ab(base[2][0], depth + 1)       # |x|
            if base[0] == 'call' and "impl dashu_base::ring::DivRem" in base[1] and base[1].endswith("::div_rem") and projs == ('.1',):
                return ('mod', self.ab(base[2][0], depth + 1), self.ab(base[2][1], depth + 1))
            if projs and all(p == '*' for p in projs):
                return self.ab(base, depth + 1)
            return ('opaque', sym.term_str(t, 120))
        if k == 'call':
            p, args = t[1], t[2]
            if p.endswith(IDENT_SUFFIX) or p in ("<T as core::convert::Into<U>>::into",):
                return self.ab(args[0], depth + 1)
            if _is(p, "dashu_base::sign::Abs", "abs") or _is(p, "dashu_base::sign::UnsignedAbs", "unsigned_abs") or _is(p, "core::ops::arith::Neg", "neg"):
                return self.ab(args[0], depth + 1)
            if "impl core::convert::From<" in p and p.endswith("::from") and "dashu_int" in p:
                return self.ab(args[0], depth + 1)
            if p == "dashu_int::ibig::IBig::from_parts":
                return self.ab(args[1], depth + 1)
            if "impl core::ops::arith::Mul<dashu_base::sign::Sign>" in p:
                return self.ab(args[0], depth + 1)
            if "impl core::ops::arith::Mul" in p and p.endswith("::mul") and p.startswith("dashu_int::"):
                fs = []
                for a in args:
                    x = self.ab(a, depth + 1)
                    fs.extend(x[1] if x[0] == 'mul' else [x])
                return ('mul', tuple(sorted(fs, key=repr)))
            if "impl core::ops::arith::Div" in p and p.endswith("::div") and p.startswith("dashu_int::"):
                return ('div', self.ab(args[0], depth + 1), self.ab(args[1], depth + 1))
            if "impl dashu_base::ring::Gcd" in p and p.endswith("::gcd"):
                xs = set()
                for a in args:
                    x = self.ab(a, depth + 1)
                    if x[0] == 'gcd':
                        xs |= set(x[1])
                    else:
                        xs.add(x)
                return ('gcd', frozenset(xs))
            if ("impl core::ops::arith::Add" in p and p.endswith("::add") or "impl core::ops::arith::Sub" in p and p.endswith("::sub")) and p.startswith("dashu_int::"):
                x, y = self.ab(args[0], depth + 1), self.ab(args[1], depth + 1)
                if self.ordered and "impl core::ops::arith::Sub" in p:
                    return ('sub', x, y)
                return ('pm',) + tuple(sorted((x, y), key=repr))
            if "impl core::ops::arith::Rem" in p and p.endswith("::rem") and p.startswith("dashu_int::"):
                return ('mod', self.ab(args[0], depth + 1), self.ab(args[1], depth + 1))
            if p.endswith(">::sqr") and p.startswith("dashu_int::mul_ops"):
                return ('pow', self.ab(args[0], depth + 1), '2')
            if p.endswith(">::cubic") and p.startswith("dashu_int::mul_ops"):
                return ('pow', self.ab(args[0], depth + 1), '3')
            if p.endswith(">::pow") and p.startswith("dashu_int::pow"):
                return ('pow', self.ab(args[0], depth + 1), sym.term_str(args[1], 60))
            if p.endswith(">::signum") and p.startswith("dashu_int::sign"):
                return ('unit',)
            return ('opaque', p)
        return ('opaque', sym.term_str(t, 120))


def estr(e):
    k = e[0]
    if k in ('num', 'den', 'int'):
        return "%s%s" % (k, e[1])
    if k in ('one', 'zero', 'unit'):
        return k
    if k == 'mul':
        return "(" + "*".join(estr(x) for x in e[1]) + ")"
    if k == 'div':
        return "(%s/%s)" % (estr(e[1]), estr(e[2]))
    if k == 'gcd':
        return "gcd(" + ",".join(sorted(estr(x) for x in e[1])) + ")"
    if k == 'pm':
        return "(%s±%s)" % (estr(e[1]), estr(e[2]))
    if k == 'mod':
        return "(%s mod %s)" % (estr(e[1]), estr(e[2]))
    if k == 'sub':
        return "(%s - %s)" % (estr(e[1]), estr(e[2]))
    if k == 'pow':
        return "%s^%s" % (estr(e[1]), e[2])
    return "?" + str(e[1])[:40]


class Prover:
    """coprime(x, y) by syntactic rules.  `base` is a set of frozenset({x, y}) pairs known coprime
    (reducedness of operands, guard facts)."""

    def __init__(self, base):
        self.base = set(base)
        self.used = set()

    def divides_source(self, x):
        """x = ('div', s, g) with g a gcd that has s among its arguments: x is an exact divisor of s"""
        if x[0] == 'div' and x[2][0] == 'gcd' and x[1] in x[2][1]:
            return x[1]
        return None

    def coprime(self, x, y, depth=0):
        if depth > 12:
            return False
        if x[0] in ('one', 'unit') or y[0] in ('one', 'unit'):
            return True
        pair = frozenset((x, y))
        if pair in self.base and len(pair) == 2:
            self.used.add(pair)
            return True
        # products
        for a, b in ((x, y), (y, x)):
            if a[0] == 'mul':
                return all(self.coprime(f, b, depth + 1) for f in a[1])
        # powers
        for a, b in ((x, y), (y, x)):
            if a[0] == 'pow':
                return self.coprime(a[1], b, depth + 1)
        # quotients by the common gcd: x/g, y/g with g = gcd(x, y)
        if x[0] == 'div' and y[0] == 'div' and x[2] == y[2] and x[2][0] == 'gcd' and x[2][1] == frozenset((x[1], y[1])):
            return True
        # exact divisors inherit coprimality
        for a, b in ((x, y), (y, x)):
            s = self.divides_source(a)
            if s is not None and self.coprime(s, b, depth + 1):
                return True
        # (x mod y) is coprime to y when x is
        for a, b in ((x, y), (y, x)):
            if a[0] == 'mod' and a[2] == b and self.coprime(a[1], b, depth + 1):
                return True
        # x ± y*z is coprime to y when x is
        for a, b in ((x, y), (y, x)):
            if a[0] == 'pm':
                for u, v in ((a[1], a[2]), (a[2], a[1])):
                    fs = v[1] if v[0] == 'mul' else (v,)
                    if b in fs and self.coprime(u, b, depth + 1):
                        return True
                # x*q ± y*p  vs  p*q   (p, q coprime; x coprime p; y coprime q)
                if b[0] == 'mul' and len(b[1]) == 2:
                    p, q = b[1]
                    for (p_, q_) in ((p, q), (q, p)):
                        for u, v in ((a[1], a[2]), (a[2], a[1])):
                            fu = u[1] if u[0] == 'mul' else (u,)
                            fv = v[1] if v[0] == 'mul' else (v,)
                            if q_ in fu and p_ in fv and len(fu) == 2 and len(fv) == 2:
                                xx = [f for f in fu if f != q_] or [q_]
                                yy = [f for f in fv if f != p_] or [p_]
                                if self.coprime(xx[0], p_, depth + 1) and self.coprime(yy[0], q_, depth + 1) and self.coprime(p_, q_, depth + 1):
                                    return True
        return False
