"""Rule-engine plumbing: obligations, violations, floors, known findings, evidence files."""
import json
import os
import re
import time

VERIF = os.path.dirname(os.path.dirname(os.path.abspath(__file__)))
KNOWN = os.path.join(VERIF, "known_findings.json")
# self-tests run the checks against scratch copies and must not overwrite the real evidence
OUT = os.environ.get("VERIF_OUT") or VERIF


class Violation:
    def __init__(self, rule, key, msg, where="?", config="?", detail=None):
        self.rule = rule
        self.key = key          # line-number free, stable instance key
        self.msg = msg
        self.where = where      # file:line (informative only)
        self.config = config
        self.detail = detail or {}

    def full_key(self):
        return "%s|%s" % (self.rule, self.key)


class Result:
    """Collects what one property check did."""

    def __init__(self, prop, tier):
        self.prop = prop
        self.tier = tier
        self.t0 = time.time()
        self.rules = {}          # rule id -> dict(text=..., obligations=n, discharged=n, nontrivial=set, per_config={})
        self.violations = {}     # full_key -> Violation (deduplicated across configurations)
        self.violation_configs = {}
        self.samples = []
        self.assumed = []
        self.notes = []
        self.anchor_failures = []
        self.configs = []

    def rule(self, rid, text):
        if rid not in self.rules:
            self.rules[rid] = dict(text=text, obligations=0, discharged=0, nontrivial=set(),
                                   per_config={}, instances=set())
        return self.rules[rid]

    def ok(self, rid, config, key, nontrivial=True, sample=None):
        r = self.rules[rid]
        inst = (config, key)
        if inst in r["instances"]:
            return
        r["instances"].add(inst)
        r["obligations"] += 1
        r["discharged"] += 1
        r["per_config"][config] = r["per_config"].get(config, 0) + 1
        if nontrivial:
            r["nontrivial"].add(key)
        if sample is not None and len([s for s in self.samples if s.get("rule") == rid]) < 3:
            s = dict(rule=rid, config=config, instance=key)
            s.update(sample if isinstance(sample, dict) else {"detail": sample})
            self.samples.append(s)

    def fail(self, rid, config, key, msg, where="?", detail=None):
        r = self.rules[rid]
        inst = (config, key)
        if inst not in r["instances"]:
            r["instances"].add(inst)
            r["obligations"] += 1
            r["per_config"][config] = r["per_config"].get(config, 0) + 1
            r["nontrivial"].add(key)
        v = Violation(rid, key, msg, where, config, detail)
        fk = v.full_key()
        if fk not in self.violations:
            self.violations[fk] = v
        self.violation_configs.setdefault(fk, set()).add(config)

    def anchor(self, rid, config, what):
        """fail closed: a named anchor / floor is missing"""
        self.anchor_failures.append((rid, config, what))
        self.fail(rid, config, "anchor:" + what, "anchor or floor missing: " + what)

    def floor(self, rid, config, count, floor, what):
        # a floor guards against a rule that silently matches (almost) nothing; a behaviour-preserving edit may
        # merge or split a few instances, so one eighth of slack (at least one instance) is allowed
        eff = floor - max(1, floor // 8) if floor > 2 else floor
        if count < eff:
            self.anchor(rid, config, "%s: matched %d instances, floor is %d" % (what, count, floor))

    def assume(self, text):
        if text not in self.assumed:
            self.assumed.append(text)

    def note(self, text):
        self.notes.append(text)


def load_known():
    if not os.path.exists(KNOWN):
        return {"findings": [], "fixed": []}
    with open(KNOWN) as fh:
        return json.load(fh)


def finish(res, level_text, trusted_base, out=None):
    """print report, write evidence and replay files, return the exit code"""
    import sys
    out = out or sys.stdout
    known = load_known()
    known_keys = {}
    for k in known.get("findings", []):
        if k["property"] == res.prop:
            known_keys[k["key"]] = k
    findings_dir = os.path.join(OUT, "findings", res.prop)
    os.makedirs(findings_dir, exist_ok=True)
    # remove stale replay files of this property
    for f in os.listdir(findings_dir):
        os.unlink(os.path.join(findings_dir, f))
    new_viol = []
    known_hit = []
    for fk, v in sorted(res.violations.items()):
        if fk in known_keys:
            known_hit.append((v, known_keys[fk]))
        else:
            new_viol.append(v)
    for v, k in known_hit:
        out.write("KNOWN-FINDING: property=%s %s [%s]\n" % (res.prop, k.get("what", v.msg), v.full_key()))
    for v in new_viol:
        name = re.sub(r"[^A-Za-z0-9_.-]+", "_", v.full_key())[:150]
        path = os.path.join(findings_dir, name + ".json")
        with open(path, "w") as fh:
            json.dump(dict(property=res.prop, rule=v.rule, key=v.key, message=v.msg, where=v.where,
                           configs=sorted(res.violation_configs.get(v.full_key(), [])),
                           detail=v.detail), fh, indent=1)
        out.write("  [%s] %s\n      at %s (configs: %s)\n      key: %s\n" % (
            v.rule, v.msg, v.where, ",".join(sorted(res.violation_configs.get(v.full_key(), []))), v.key))
        out.write("VIOLATION property=%s replay=%s\n" % (res.prop, path))
    obligations = sum(r["obligations"] for r in res.rules.values())
    discharged = sum(r["discharged"] for r in res.rules.values())
    nontrivial = sum(len(r["nontrivial"]) for r in res.rules.values())
    wall = time.time() - res.t0
    rules_out = {}
    for rid, r in sorted(res.rules.items()):
        rules_out[rid] = dict(text=r["text"], obligations=r["obligations"], discharged=r["discharged"],
                              distinct_nontrivial=len(r["nontrivial"]), per_config=r["per_config"])
    ev = dict(
        property_id=res.prop,
        tier=res.tier,
        seed=int(os.environ.get("VERIF_SEED", "0") or 0),
        level="other",
        coverage=dict(
            explanation=level_text,
            obligations=obligations,
            discharged=discharged,
            evaluations=obligations,
            distinct_nontrivial=nontrivial,
            rule="one evaluation = one rule instance (function body, call site, constructor site, table "
                 "cell or impl) checked in one build configuration; non-trivial = the instance needed a "
                 "guard/dataflow/table argument (not satisfied by absence); distinct = distinct instance "
                 "keys, configurations merged",
            samples=res.samples[:40] or [{"note": "no instance sampled"}],
            checker_cmd="./check %s --tier %s" % (res.prop, res.tier),
            trusted_base=trusted_base,
            exhaustive=True,
            configurations=res.configs,
            rules=rules_out,
            assumed_not_decided=res.assumed,
            notes=res.notes,
            planted_breaks=getattr(res, "selftest", []),
            known_findings=[dict(key=v.full_key(), what=k.get("what", "")) for v, k in known_hit],
            new_violations=[dict(key=v.full_key(), msg=v.msg, where=v.where) for v in new_viol],
            anchor_failures=["%s[%s]: %s" % a for a in res.anchor_failures],
        ),
        assumptions=trusted_base + res.assumed,
        wall_s=round(wall, 2),
        violations=len(new_viol),
    )
    os.makedirs(os.path.join(OUT, "evidence"), exist_ok=True)
    with open(os.path.join(OUT, "evidence", res.prop + ".json"), "w") as fh:
        json.dump(ev, fh, indent=1, sort_keys=False)
    out.write("%s %s: %d rules, %d obligations, %d discharged, %d known findings, %d violations, %.1fs\n" % (
        res.prop, res.tier, len(res.rules), obligations, discharged, len(known_hit), len(new_viol), wall))
    for rid, r in sorted(res.rules.items()):
        out.write("   %-7s %5d/%-5d  %s\n" % (rid, r["discharged"], r["obligations"], r["text"][:110]))
    return 1 if new_viol else 0
