"""Selective MIR inlining of private helper functions (on the JSON fact base).

Purpose: robustness of the storage-layer rules against the most common refactoring, *extract helper*.
When a block of a reviewed function (say `Repr::clone_from`) is moved into a new private function, the
guards stay in the caller and the unsafe operation moves to the callee (or the other way round); every
intraprocedural rule then sees half of the argument.  `view()` returns a copy of a Program in which calls to
such helpers are spliced back into their callers, and the helpers themselves are hidden, so that the rules
evaluate the same code they evaluated before the extraction.  Nothing is executed: this is a purely
syntactic transformation of the exported MIR (fresh locals, offset block indices, argument moves, the
callee's `return` becomes an assignment of the destination followed by a goto).

On a tree without such helpers the view is the Program itself."""
import copy

from . import mir


def _remap(node, lm, bm):
    """deep copy of a statement / terminator / operand with locals and block indices renumbered"""
    if isinstance(node, list):
        return [_remap(x, lm, bm) for x in node]
    if not isinstance(node, dict):
        return node
    out = {}
    for k, v in node.items():
        if k == "l" and isinstance(v, int):
            out[k] = lm(v)
        else:
            out[k] = _remap(v, lm, bm)
    return out


def _remap_term(t, lm, bm):
    n = {}
    for k, v in t.items():
        if k in ("t", "o", "uw") and isinstance(v, int):
            n[k] = bm(v)
        elif k == "ts":
            n[k] = [[val, bm(tgt)] for val, tgt in v]
        elif k in ("f", "a", "d", "c", "p", "x", "y", "index", "len"):
            n[k] = _remap(v, lm, bm)
        else:
            n[k] = v
    return n


def inline_body(fn, lookup, should_inline, max_sites=32):
    """return a new body for `fn` with calls to functions accepted by `should_inline(path)` spliced in"""
    body = copy.deepcopy({k: v for k, v in fn["mir"].items()})
    done = 0
    changed = True
    while changed and done < max_sites:
        changed = False
        for i, bb in enumerate(body["bbs"]):
            t = bb["t"]
            if t.get("k") != "call":
                continue
            fr = mir.callee(t)
            cp = fr and (fr.get("rp") or fr["p"])
            if not cp or not should_inline(cp):
                continue
            g = lookup(fr, cp)
            if g is None or not g.get("mir") or g is fn:
                continue
            gb = g["mir"]
            if len(t["a"]) != gb["argc"]:
                continue
            lbase = len(body["locals"])
            bbase = len(body["bbs"])
            lm = lambda l, lbase=lbase: l + lbase
            bm = lambda b, bbase=bbase: b + bbase
            body["locals"].extend(copy.deepcopy(gb["locals"]))
            for v in gb.get("vars", []) or []:
                body.setdefault("vars", []).append({"n": v["n"] + "'", "p": _remap(v["p"], lm, bm)})
            # exit block: dest = callee _0 ; goto continuation
            exit_idx = bbase + len(gb["bbs"])
            sp = t.get("sp", "")
            for bi, gbb in enumerate(gb["bbs"]):
                nb = {"s": _remap(gbb["s"], lm, bm), "t": None}
                if gbb.get("cu"):
                    nb["cu"] = gbb["cu"]
                gt = gbb["t"]
                if gt["k"] == "ret":
                    nb["t"] = {"k": "goto", "t": exit_idx}
                elif gt["k"] == "resume":
                    nb["t"] = {"k": "goto", "t": t["uw"]} if isinstance(t.get("uw"), int) else {"k": "resume"}
                else:
                    nb["t"] = _remap_term(gt, lm, bm)
                body["bbs"].append(nb)
            ex = {"s": [{"k": "as", "p": copy.deepcopy(t["d"]), "rv": {"k": "use", "a": {"mv": {"l": lbase}}}, "sp": sp}],
                  "t": {"k": "goto", "t": t["t"]} if t.get("t") is not None else {"k": "unreachable", "sp": sp}}
            body["bbs"].append(ex)
            # argument moves, then jump into the callee
            for k, a in enumerate(t["a"]):
                bb["s"].append({"k": "as", "p": {"l": lbase + k + 1}, "rv": {"k": "use", "a": copy.deepcopy(a)}, "sp": sp})
            bb["t"] = {"k": "goto", "t": bbase}
            done += 1
            changed = True
            break
    return body, done


class _UnitView:
    def __init__(self, u, fns):
        self.__dict__.update(u.__dict__)
        self.fns = fns


class _ProgramView:
    def __init__(self, P, crate, fns, hidden):
        self.__dict__.update(P.__dict__)
        self.units = dict(P.units)
        self.units[crate] = _UnitView(P.units[crate], fns)
        self.inlined_helpers = hidden
        self._P = P

    @property
    def name(self):
        return self._P.name

    def fns(self, crate=None):
        if crate is None:
            for u in self.units.values():
                yield from u.fns
        else:
            u = self.units.get(crate)
            if u:
                yield from u.fns


_VIEWS = {}


def view(P, crate, is_helper):
    """Program view with the helpers (paths accepted by is_helper(fn, callers)) inlined into their callers.
    is_helper gets the function dict and the list of caller function dicts."""
    key = (id(P), crate)
    if key in _VIEWS:
        return _VIEWS[key]
    u = P.units.get(crate)
    if u is None:
        _VIEWS[key] = P
        return P
    callers = {}
    byp = {}
    for f in u.fns:
        byp.setdefault(f["p"], f)
    for f in u.fns:
        if not f.get("mir"):
            continue
        for bb, t, fr in mir.iter_calls(f["mir"], reachable_only=False):
            cp = fr and (fr.get("rp") or fr["p"])
            if cp in byp:
                callers.setdefault(cp, []).append(f)
    helpers = set()
    changed = True
    while changed:
        changed = False
        for f in u.fns:
            if f["p"] in helpers or not f.get("mir"):
                continue
            cs = [c for c in callers.get(f["p"], []) if c is not f]
            if cs and is_helper(f, cs, helpers):
                helpers.add(f["p"])
                changed = True
    if not helpers:
        _VIEWS[key] = P
        return P
    new_fns = []
    for f in u.fns:
        if f["p"] in helpers:
            continue
        if f.get("mir") and any((mir.callee(bb["t"]) or {}).get("rp") in helpers or (mir.callee(bb["t"]) or {}).get("p") in helpers
                                for bb in f["mir"]["bbs"] if bb["t"].get("k") == "call"):
            nb, n = inline_body(f, lambda fr, cp: byp.get(cp), lambda cp: cp in helpers)
            g = dict(f)
            g["mir"] = nb
            g["inlined"] = n
            new_fns.append(g)
        else:
            new_fns.append(f)
    V = _ProgramView(P, crate, new_fns, sorted(helpers))
    _VIEWS[key] = V
    return V
