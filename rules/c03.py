"""C03 — rounding contract of float arithmetic.  Decides everything in the contract that is
comparison-only (per-mode decision tables, pairing of modes, the truthfulness *shape* of the Exact
flag) and the structural sequencing (round with the caller's own context before wrapping, no sign
flip after a directed rounding).  Not decided: alignment arithmetic, sticky-part computation,
square-root scaling parity (numeric)."""
from . import mir, sym, guards, fdt_tables
from .mir import span_loc
from .c17b import strip_bb

PROP = "C03"
CONFIGS = {"quick": ["dbg", "rel"], "thorough": ["dbg", "rel", "feat", "w32", "nostd"]}
LEVEL = ("Exhaustive finite decision tables plus structural obligations: (R03.1) the rounding decision of each of the "
         "six modes equals its definition in all 30 cells (integer class x sign of the discarded part x comparison "
         "with 1/2), computed by abstract evaluation of the dispatch body with leaf-predicate summaries and "
         "compared with an oracle over exact rationals; (R03.2) Reverse modes are mirror images; (R03.3) no value "
         "rounded under the caller's mode is negated afterwards; (R03.4) every Exact(..) is on a zero-test / "
         "fits-precision / unlimited / unchanged-input / constant edge; (R03.5) every arithmetic Context method "
         "passes a rounding primitive invoked on its own context on every return path before wrapping the result. "
         "The digit arithmetic that feeds the decision (alignment, sticky parts, guard digits) is not decided.")
TRUSTED = ["rustc MIR", "the leaf-predicate summaries of rules/fdt_tables.py (is_zero, sign, bit(0), comparisons on representatives)",
           "the oracle: exact rational arithmetic on two representatives per class"]

ROUND_PRIMS = ("::repr_round", "::repr_round_ref", "::repr_round_sum", "::repr_div", "::repr_rem", "::round_fract", "::round_ratio",
               "::round_low_part", "::repr_add_large_small", "::repr_add_small_large")
APPROX_MAP = ("dashu_base::approx::Approximation::<T, E>::map", "dashu_base::approx::Approximation::<T, E>::and_then")
NEG = ("as core::ops::arith::Neg>::neg",)


def run(res, programs, tier):
    fdt_tables.r03_1(res, programs, "R03.1")
    fdt_tables.r_add_rounding(res, programs, "R03.1b")
    fdt_tables.r03_2(res, programs, "R03.2")
    res.rule("R03.3", "a value rounded under the generic mode R is not negated on its way to the result (negate before rounding, or round under R::Reverse)")
    res.rule("R03.4", "every Approximation::Exact(..) in the arithmetic kernels is on a zero-test / fits-precision / unlimited-precision / unchanged-input / constant edge")
    res.rule("R03.5", "Context::{add,sub,mul,div,rem,sqr,cubic,inv,sqrt} pass, on every return path, a rounding primitive invoked on `self` before the result is wrapped with *self")
    for P in programs:
        if "dashu_float" not in P.units:
            continue
        _r03_3(res, P, P.name)
        _r03_4(res, P, P.name)
        _r03_5(res, P, P.name)
        _r03_7(res, P, P.name)
        from . import c15
        res.rule("R15.5", "(shared with C15) mirrored sibling kernels of the float add/sub and rounding paths call the same kernels and pass identical decision terms")
        c15._r15_5(res, P, P.name)
        if "dashu_ratio" in P.units and P.role == "main":
            # R03.6 (= R10.4): the half test of round_fract is conservative
            from . import polarity
            polarity.rule(res, P, P.name, "R03.6")
            from . import halftest
            halftest.rule(res, P, P.name, "R03.8")
            from . import c06
            c06.exact_laundering(res, P, P.name, "R03.4b")


def _closure_negates_arg(P, cl):
    S = sym.Sym(cl)
    for bb, t, fr in mir.iter_calls(cl["mir"]):
        cp = fr and (fr.get("rp") or fr["p"])
        if cp and (cp.endswith(NEG) or "::Neg" in cp and cp.endswith("::neg")):
            a = strip_bb(S.operand(t["a"][0]))
            root = a
            while isinstance(root, tuple) and root[0] in ("place", "ref", "refmut"):
                root = root[1]
            if root == ("arg", 2):
                return True
    return False


def _r03_3(res, P, cfgname):
    n = 0
    fns = {f["d"]: f for f in P.fns("dashu_float")}
    for f in P.fns("dashu_float"):
        if f["kind"] == "Closure":
            continue
        S = None
        for bb, t, fr in mir.iter_calls(f["mir"]):
            cp = fr and (fr.get("rp") or fr["p"])
            if not cp or not cp.startswith("dashu_float::") or not cp.endswith(ROUND_PRIMS):
                continue
            gen = " ".join(fr.get("rg", []) + fr.get("g", []))
            n += 1
            key = "%s -> %s" % (f["p"], cp.rsplit("::", 1)[1])
            if "Reverse" in gen:
                res.ok("R03.3", cfgname, key + "|reverse", nontrivial=False)
                continue
            locs, calls = mir.forward_slice(f["mir"], [t["d"]["l"]])
            bad = None
            for cb in calls:
                tt = f["mir"]["bbs"][cb]["t"]
                c2 = mir.callee_path(tt) or ""
                if c2.endswith(NEG) or (c2.endswith("::neg") and "Neg" in c2):
                    bad = ("direct negation", span_loc(tt["sp"]))
                if c2 in APPROX_MAP:
                    S = S or sym.Sym(f)
                    cl_t = strip_bb(S.operand(tt["a"][1]))
                    if cl_t[0] == 'agg' and cl_t[1] == 'closure':
                        cl = fns.get(cl_t[2])
                        if cl is not None and _closure_negates_arg(P, cl):
                            bad = ("negated inside .map(|v| -v)", span_loc(tt["sp"]))
            ordinal = sum(1 for (b2, t2, f2) in mir.iter_calls(f["mir"]) if b2 < bb and f2 and (f2.get("rp") or f2["p"]) == cp)
            key = "%s -> %s #%d" % (f["p"], cp.rsplit("::", 1)[1], ordinal)
            if bad:
                res.fail("R03.3", cfgname, key,
                         "%s rounds with %s under its own mode and then negates the result (%s): for directed modes the result lies on the wrong side and the returned Rounding flag is not mirrored" % (f["p"], cp.rsplit("::", 1)[1], bad[0]), bad[1])
            else:
                res.ok("R03.3", cfgname, key)
    res.floor("R03.3", cfgname, n, 25, "calls of rounding primitives")


KERNEL_FILES = ("add.rs", "mul.rs", "div.rs", "root.rs", "repr.rs", "exp.rs", "log.rs")


def _exact_category(S, cfg, bb, s, fn):
    cons = guards.constraints_at(S, cfg, bb)
    v = strip_bb(S.operand(s["rv"]["ops"][0]))
    for c in cons:
        if c[0] == 'bool' and c[1][0] == 'call':
            name = c[1][1].rsplit("::", 1)[1]
            if name == "is_zero" and c[2] is True:
                return "zero test of the discarded part / operand"
            if name == "is_limited" and c[2] is False:
                return "unlimited precision"
            if name in ("is_one", "eq") and c[2] is True:
                return "special operand (x == 1)"
        if c[0] == 'rel':
            txt = sym.term_str(c[2], 200) + " " + sym.term_str(c[3], 200)
            if "digits" in txt and "precision" in txt and c[1] in ("Le", "Lt", "Ge", "Gt"):
                return "digits <= precision"
        if c[0] == 'unary' and c[1][0] == 'discr':
            return "propagates an inner Exact (match arm)"
    root = v
    while isinstance(root, tuple) and root[0] in ("place", "ref", "refmut"):
        root = root[1]
    if root[0] == 'arg' or (root[0] == 'call' and root[1].endswith("as core::clone::Clone>::clone")):
        return "input returned unchanged"
    if v[0] == 'const' or (v[0] == 'call' and v[1].endswith(("::zero", "::one"))):
        return "constant result"
    # a multiply-assigned flag guarding the early return (e.g. `if (one_plus && x.is_zero()) || ..`)
    for c in cons:
        if c[0] == 'unary' and c[1][0] == 'var':
            return "composite special-operand test"
    return None


def _r03_4(res, P, cfgname):
    n = 0
    for f in P.fns("dashu_float"):
        file = mir.span_file(f["sp"]).rsplit("/", 1)[-1]
        if file not in KERNEL_FILES:
            continue
        S = None
        k = 0
        for i, j, s in mir.iter_stmts(f["mir"]):
            if s["k"] == "as" and s["rv"]["k"] == "agg" and s["rv"].get("adt") == "dashu_base::approx::Approximation" and s["rv"]["vn"] == "Exact":
                S = S or sym.Sym(f)
                cfg = mir.cfg_of(f["mir"])
                n += 1
                k += 1
                cat = _exact_category(S, cfg, i, s, f)
                key = "Exact #%d in %s" % (k, f["p"])
                if cat:
                    res.ok("R03.4", cfgname, key, sample=dict(function=f["p"], category=cat, at=span_loc(s["sp"])))
                else:
                    res.fail("R03.4", cfgname, key, "%s returns Approximation::Exact on an edge that is not a zero test of the discarded part, a fits-precision / unlimited-precision edge, an unchanged input or a constant: the Exact flag would not tell the truth" % f["p"], span_loc(s["sp"]))
    res.floor("R03.4", cfgname, n, 14, "Exact(..) sites in the arithmetic kernels")


CTX = "dashu_float::%s::<impl dashu_float::repr::Context<R>>::%s"
CTX_METHODS = [("add", "add"), ("add", "sub"), ("mul", "mul"), ("mul", "sqr"), ("mul", "cubic"), ("div", "div"), ("div", "rem"),
               ("div", "inv"), ("root", "sqrt")]
OWN_ROUNDERS = ("::repr_round", "::repr_round_ref", "::repr_round_sum", "::repr_div", "::repr_rem", "::repr_add_large_small",
                "::repr_add_small_large", "::div", "::with_precision")


def _r03_5(res, P, cfgname):
    for mod, name in CTX_METHODS:
        path = CTX % (mod, name)
        f = next((g for g in P.fns("dashu_float") if g["p"] == path), None)
        if f is None:
            res.anchor("R03.5", cfgname, "fn " + path)
            continue
        S = sym.Sym(f)
        cfg = mir.cfg_of(f["mir"])
        blocks = set()
        others = []
        for bb, t, fr in mir.iter_calls(f["mir"]):
            cp = fr and (fr.get("rp") or fr["p"])
            if not cp or not cp.startswith("dashu_float::") or not cp.endswith(OWN_ROUNDERS):
                continue
            recv = strip_bb(S.operand(t["a"][0])) if t["a"] else None
            if recv == ("arg", 1):
                blocks.add(bb)
            else:
                others.append(cp.rsplit("::", 1)[1])
        # closures passed to Approximation::and_then / map that round with the captured self
        for bb, t, fr in mir.iter_calls(f["mir"]):
            cp = fr and (fr.get("rp") or fr["p"])
            if cp in APPROX_MAP:
                cl_t = strip_bb(S.operand(t["a"][1]))
                if cl_t[0] == 'agg' and cl_t[1] == 'closure':
                    cl = next((g for g in P.fns("dashu_float") if g["d"] == cl_t[2]), None)
                    if cl is not None:
                        Sc = sym.Sym(cl)
                        for b2, t2, f2 in mir.iter_calls(cl["mir"]):
                            c2 = f2 and (f2.get("rp") or f2["p"])
                            if c2 and c2.startswith("dashu_float::") and c2.endswith(OWN_ROUNDERS):
                                r2 = sym.term_str(strip_bb(Sc.operand(t2["a"][0])), 80).lstrip("&")
                                # captured `self` is field 0 of the closure environment
                                if r2.startswith("arg1") and any(strip_bb(S.operand(o)) == ("arg", 1) or strip_bb(S.operand(o)) == ('ref', ('arg', 1)) for o in _closure_ops(S, f, t["a"][1])):
                                    blocks.add(bb)
        key = "Context::%s rounds with self on every return path" % name
        if blocks and cfg.must_pass(blocks):
            res.ok("R03.5", cfgname, key, sample=dict(function=path, own_roundings=len(blocks), other_context_roundings=sorted(set(others))))
        else:
            res.fail("R03.5", cfgname, key, "Context::%s has a return path on which the result is wrapped with *self without a rounding primitive invoked on self (a result could carry more digits than the context allows)" % name, span_loc(f["sp"]))


def _closure_ops(S, f, op):
    l = mir.op_local(op)
    if l is None:
        return []
    d = S.du.single_def(l)
    if d is None or d[1] == 't':
        return []
    rv = d[2].get("rv", {})
    return rv.get("ops", []) if rv.get("k") == "agg" else []


# ---------------------------------------------------------------------------------------------
# R03.7  truncating signed arithmetic.  Exponents are isize and routinely negative; `/`, `%` and `>>` on
# a signed primitive round toward zero resp. -inf, and `x % 2` is -1 for negative odd x.  The float
# kernels use `& 1` for parities and divide only where the quotient is exact.  Every signed Div / Rem /
# Shr site is either in the reviewed table (one line of reason), has an operand that is >= 0 on every
# path to it, or (Rem) feeds nothing but `== 0` / `!= 0` tests.
SIGNED = ("isize", "i8", "i16", "i32", "i64", "i128")
SIGNED_REVIEWED = {
    ("dashu_float::root::<impl dashu_float::repr::Context<R>>::sqrt", "Div"):
        "exp = (x.exponent - shift) / 2: shift was chosen with the parity of x.exponent (`+ (x.exponent & 1)`, `- (digits & 1) - digits`), so the division is exact",
}


def _r03_7(res, P, cfgname):
    res.rule("R03.7", "signed primitive Div / Rem / Shr in the float crate: reviewed exact site, operand >= 0 on every path, or (Rem) used only in `== 0` / `!= 0` tests (a signed `% 2` is -1 for negative odd exponents)")
    n = 0
    for f in P.fns("dashu_float"):
        b = f.get("mir")
        if not b:
            continue
        sites = [(i, j, s) for i, j, s in mir.iter_stmts(b)
                 if s["k"] == "as" and s["rv"]["k"] == "bin" and s["rv"]["op"] in ("Div", "Rem", "Shr")
                 and b["locals"][s["p"]["l"]]["ty"] in SIGNED and not s["p"].get("p")]
        if not sites:
            continue
        S = sym.Sym(f)
        cfg = mir.cfg_of(b)
        du = mir.defuse_of(b)
        for i, j, s in sites:
            if i not in cfg.reachable():
                continue
            n += 1
            op = s["rv"]["op"]
            key = "%s %s" % (f["p"], op)
            if (f["p"], op) in SIGNED_REVIEWED:
                res.ok("R03.7", cfgname, key + " #reviewed", sample=dict(function=f["p"], op=op, reason=SIGNED_REVIEWED[(f["p"], op)]))
                continue
            a = sym.strip_casts(S.operand(s["rv"]["a"]))
            nonneg = False
            for c in guards.constraints_at(S, cfg, i):
                if c[0] == "rel":
                    _, o, A, B = c
                    A, B = sym.strip_casts(A), sym.strip_casts(B)
                    if A == a and B[0] == "const" and B[1] == 0 and o in ("Ge", "Gt"):
                        nonneg = True
                    if B == a and A[0] == "const" and A[1] == 0 and o in ("Le", "Lt"):
                        nonneg = True
            if nonneg:
                res.ok("R03.7", cfgname, key + " #guarded", sample=dict(function=f["p"], op=op, operand=sym.term_str(a, 60), guard=">= 0 on every path"))
                continue
            if op == "Rem":
                uses = du.uses.get(s["p"]["l"], [])
                only_zero_tests = bool(uses)
                for (ub, ui, node) in uses:
                    rv = node.get("rv") if isinstance(node, dict) else None
                    if not (rv and rv.get("k") == "bin" and rv.get("op") in ("Eq", "Ne") and (mir.op_const(rv["b"]) is not None or mir.op_const(rv["a"]) is not None)):
                        if rv and rv.get("k") == "use":
                            continue
                        only_zero_tests = False
                if only_zero_tests:
                    res.ok("R03.7", cfgname, key + " #zero-test", sample=dict(function=f["p"], op=op, uses="== 0 / != 0 only"))
                    continue
            res.fail("R03.7", cfgname, key, "%s applies the truncating signed `%s` to `%s`, which may be negative here (exponents are): `x %% 2` is -1 for negative odd x and `/` rounds toward zero; the kernels use `& 1` / exact quotients" % (f["p"], {"Div": "/", "Rem": "%", "Shr": ">>"}[op], sym.term_str(a, 60)), span_loc(s["sp"]))
    res.floor("R03.7", cfgname, n, 1, "signed Div/Rem/Shr sites in dashu_float")


LEVEL = LEVEL + ' Also (R03.6) the log2-estimate half test of round_fract is conservative (bound-polarity typing), (R03.7) no truncating signed `/ % >>` is applied to a possibly negative exponent, (R03.8) every half test compares a remainder with the divisor it came from.'
TECHNIQUE = 'finite-domain tabulation of the rounding dispatch bodies against a definition oracle; dataflow rules (negation after rounding, Exact edges, own-context rounding); bound-polarity type system; half-test pairing by backward slices; signed-arithmetic inventory with non-negativity guards'
LEVEL = LEVEL + ' (R03.4b) no Exact(..) is built from the .value() of a rounding step; (R15.5, shared) the sibling add kernels and the shl_digits twins agree.'
