"""Fact extraction (E0 front end) and the loaded fact base.

Runs the dashu-facts rustc driver over /repo for a build configuration, caches the fact files under
/verif/.cache/<tree hash>/<config>/ and loads them as a Program (one unit per workspace crate).
Nothing here executes dashu code: `cargo check` only type-checks and builds MIR.
"""
import fcntl
import glob
import hashlib
import json
import os
import shutil
import subprocess
import sys
import tempfile
import time

VERIF = os.path.dirname(os.path.dirname(os.path.abspath(__file__)))
REPO = os.environ.get("DASHU_REPO", "/repo")
DRIVER = os.path.join(VERIF, "driver", "target", "debug", "dashu-facts")
CACHE = os.environ.get("VERIF_CACHE") or os.path.join(VERIF, ".cache")     # scratch-copy runs keep their facts in their own temp dir

PKGS = ["dashu-base", "dashu-int", "dashu-float", "dashu-ratio", "dashu-macros", "dashu"]
LIBPKGS = ["dashu-base", "dashu-int", "dashu-float", "dashu-ratio"]
CRATES = ["dashu_base", "dashu_int", "dashu_float", "dashu_ratio", "dashu_macros", "dashu"]

FEAT = []
for _p in ["dashu-int", "dashu-float", "dashu-ratio"]:
    for _f in ["serde", "zeroize", "num-traits", "rand"]:
        FEAT.append("%s/%s" % (_p, _f))
FEAT.append("dashu-int/num-integer")

CONFIGS = {
    # key: (cargo args, extra rustflags, expected crates)
    "dbg": (["-p"] + " -p ".join(PKGS).split(" "), "", CRATES),
    "rel": (["--release", "-p"] + " -p ".join(PKGS).split(" "), "", CRATES),
    "w32": (["-p"] + " -p ".join(PKGS).split(" "), '--cfg force_bits="32"', CRATES),
    "nostd": (["--no-default-features", "-p"] + " -p ".join(LIBPKGS).split(" "), "", CRATES[:4]),
    "feat": (["-p"] + " -p ".join(PKGS).split(" ") + ["--features", ",".join(FEAT)], "", CRATES),
}


def tree_hash():
    """sha256 over every workspace source file, manifest, lock file and the driver binary."""
    h = hashlib.sha256()
    files = []
    for root, dirs, fs in os.walk(REPO):
        dirs[:] = [d for d in dirs if d not in ("target", ".git", "benchmark", "python", "guide")]
        for f in fs:
            if f.endswith(".rs") or f in ("Cargo.toml", "Cargo.lock", "build.rs"):
                files.append(os.path.join(root, f))
    files.sort()
    for f in files:
        h.update(os.path.relpath(f, REPO).encode())
        h.update(b"\0")
        with open(f, "rb") as fh:
            h.update(fh.read())
        h.update(b"\0")
    with open(DRIVER, "rb") as fh:
        h.update(fh.read())
    return h.hexdigest()[:24]


def _sysroot():
    return subprocess.check_output(["rustc", "+nightly", "--print", "sysroot"], text=True).strip()


def extract(config, th=None, log=sys.stderr):
    """Make sure the fact files of `config` for the current tree exist; return their directory."""
    th = th or tree_hash()
    out = os.path.join(CACHE, th, config)
    done = os.path.join(out, ".done")
    if os.path.exists(done):
        try:
            os.utime(os.path.join(CACHE, th), None)
        except OSError:
            pass
        return out
    os.makedirs(os.path.join(CACHE, th), exist_ok=True)
    lock = open(os.path.join(CACHE, th, config + ".lock"), "w")
    fcntl.flock(lock, fcntl.LOCK_EX)
    try:
        if os.path.exists(done):
            return out
        if os.path.exists(out):
            shutil.rmtree(out)
        tmp_out = out + ".part"
        if os.path.exists(tmp_out):
            shutil.rmtree(tmp_out)
        os.makedirs(tmp_out)
        args, rflags, expected = CONFIGS[config]
        tdir = tempfile.mkdtemp(prefix="dashu-facts-tgt-")
        env = dict(os.environ)
        env["LD_LIBRARY_PATH"] = _sysroot() + "/lib"
        env["RUSTFLAGS"] = ("-Zmir-opt-level=0 -Awarnings " + rflags).strip()
        env["RUSTC_WORKSPACE_WRAPPER"] = DRIVER
        env["DASHU_FACTS_OUT"] = tmp_out
        env["CARGO_TARGET_DIR"] = tdir
        env["CARGO_NET_OFFLINE"] = "true"
        env.pop("RUSTC_WRAPPER", None)
        t0 = time.time()
        try:
            p = subprocess.run(
                ["cargo", "+nightly", "check", "--offline"] + args,
                cwd=REPO, env=env, stdout=subprocess.PIPE, stderr=subprocess.STDOUT, text=True,
            )
        finally:
            shutil.rmtree(tdir, ignore_errors=True)
        if p.returncode != 0:
            log.write(p.stdout[-6000:])
            raise RuntimeError("fact extraction failed for config %s (cargo check exit %d)"
                               % (config, p.returncode))
        got = set(os.path.basename(f).rsplit("-", 1)[0] for f in glob.glob(tmp_out + "/*.json"))
        missing = [c for c in expected if c not in got]
        if missing:
            raise RuntimeError("fact extraction for %s produced no facts for %s" % (config, missing))
        os.rename(tmp_out, out)
        with open(done, "w") as fh:
            fh.write("%.1f\n" % (time.time() - t0))
        log.write("[facts] extracted %s in %.1fs\n" % (config, time.time() - t0))
        return out
    finally:
        fcntl.flock(lock, fcntl.LOCK_UN)
        lock.close()


def extract_many(configs, log=sys.stderr):
    """Extract several configurations in parallel (each is its own cargo invocation)."""
    import concurrent.futures
    th = tree_hash()
    todo = [c for c in configs if not os.path.exists(os.path.join(CACHE, th, c, ".done"))]
    if len(todo) > 1:
        with concurrent.futures.ThreadPoolExecutor(max_workers=len(todo)) as ex:
            list(ex.map(lambda c: extract(c, th, log), todo))
    elif todo:
        extract(todo[0], th, log)
    prune_cache(th)
    return th


def prune_cache(keep):
    """Keep the cache small: remove fact sets of other trees that were not touched for two hours
    (never the current one, never a recently used one: parallel self-tests share the cache)."""
    if not os.path.isdir(CACHE):
        return
    now = time.time()
    for e in os.listdir(CACHE):
        p = os.path.join(CACHE, e)
        if e == keep or not os.path.isdir(p):
            continue
        try:
            if now - os.path.getmtime(p) > 7200:
                shutil.rmtree(p, ignore_errors=True)
        except OSError:
            pass


_IK = {'d', 'p', 'tr', 'r', 'rp', 'ty', 'uv', 'uvp', 'param', 's', 'n', 'of', 'ck', 'adt', 'vn',
       'uf', 'def', 'sp', 'fsp', 'dty', 'ak', 'm', 'vis', 'name', 'impl', 'self_ty', 'trait',
       'in_trait', 'closure_of', 'output', 'self', 'tp', 'repr', 'owner', 'from'}
_LK = {'g', 'rg', 'inputs', 'fn'}


def _deintern(x, S):
    if isinstance(x, dict):
        for k, v in x.items():
            if isinstance(v, bool):
                continue
            if isinstance(v, int):
                if k in _IK:
                    x[k] = S[v]
            elif isinstance(v, list):
                if k in _LK:
                    x[k] = [S[i] for i in v]
                else:
                    for e in v:
                        _deintern(e, S)
            elif isinstance(v, dict):
                _deintern(v, S)
    elif isinstance(x, list):
        for e in x:
            _deintern(e, S)


class Unit:
    """One compiled crate (one rustc invocation)."""

    def __init__(self, raw, path):
        S = raw.pop("strs")
        for k in ("fns", "adts", "impls", "consts", "unsafe_blocks"):
            _deintern(raw[k], S)
        self.path = path
        self.crate = raw["crate"]
        self.args = raw["args"]
        self.features = sorted(a[len('feature="'):-1] for a in self.args if a.startswith('feature="'))
        self.cfgs = []
        it = iter(self.args)
        for a in it:
            if a == "--cfg":
                self.cfgs.append(next(it, ""))
        self.debug_assertions = raw["debug_assertions"]
        self.overflow_checks = raw["overflow_checks"]
        self.fns = raw["fns"]
        self.adts = raw["adts"]
        self.impls = raw["impls"]
        self.consts = raw["consts"]
        self.unsafe_blocks = raw["unsafe_blocks"]
        for f in self.fns:
            f["crate"] = self.crate

    def sig(self):
        return (self.crate, tuple(self.cfgs), self.debug_assertions)


class Program:
    """A set of units, one per crate, with cross-crate lookup by def path ("crate::path")."""

    def __init__(self, units, config, role):
        self.units = {u.crate: u for u in units}
        self.config = config
        self.role = role  # "main" (target graph, max features) or "host" (proc-macro graph)
        self.fn = {}
        for u in units:
            for f in u.fns:
                self.fn[f["d"]] = f
        self.adt = {}
        for u in units:
            for a in u.adts:
                self.adt[a["d"]] = a
        self.impls = [i for u in units for i in u.impls]
        self.consts = {c["d"]: c for u in units for c in u.consts}
        self.repinned = {}
        if not os.environ.get("DASHU_NO_PATH_PINNING"):
            self._pin_paths()

    def _pin_paths(self):
        """keep the reviewed spelling of functions whose impl block moved to another module (see canon())"""
        refall = _ref_paths()
        ref = refall.get("paths", {})
        if not ref:
            return
        have = set()
        for u in self.units.values():
            for f in u.fns:
                have.add(f["p"])
        ren = {}
        for u in self.units.values():
            if not u.crate.startswith("dashu"):
                continue
            for f in u.fns:
                p = f["p"]
                r = ref.get(canon(p))
                if r and r != p and r not in have:
                    ren[p] = r
        # renamed private functions: a reviewed function that disappeared and an unlisted function of the same
        # crate with the same signature (impl self type, inputs, output) and the same body skeleton
        sigs = refall.get("sigs", {})
        if sigs:
            known = set(ref.values())
            now = set(ren.get(p, p) for p in have)
            by_key = {}
            for u in self.units.values():
                if not u.crate.startswith("dashu"):
                    continue
                for f in u.fns:
                    p = ren.get(f["p"], f["p"])
                    if p in known or f.get("kind") == "Closure" or "{closure" in p:
                        continue
                    by_key.setdefault((signature(f), skeleton(f)), []).append(f["p"])
            # sigs[p] = list of (signature, skeleton) variants, one per build configuration that was frozen
            cand = {}
            for p, variants in sigs.items():
                if p in now or "{closure" in p or p.split("::", 1)[0].lstrip("<") not in self.units:
                    continue
                if variants and isinstance(variants[0], str):
                    variants = [variants]
                for sg, sk in variants:
                    for q in by_key.get((sg, sk), []):
                        cand.setdefault(p, set()).add(q)
            taken = {}
            for p, qs in cand.items():
                if len(qs) == 1:
                    taken.setdefault(next(iter(qs)), []).append(p)
            for q, olds in taken.items():
                if len(olds) == 1:
                    ren[q] = olds[0]
            # closures follow their parent
            for u in self.units.values():
                for f in u.fns:
                    p = f["p"]
                    if "::{closure" in p and p not in ren:
                        parent, rest = p.split("::{closure", 1)
                        if parent in ren:
                            ren[p] = ren[parent] + "::{closure" + rest
        if not ren:
            return
        self.repinned = ren
        for u in self.units.values():
            for f in u.fns:
                if f["p"] in ren:
                    f["p_current"] = f["p"]
                    f["p"] = ren[f["p"]]
                b = f.get("mir")
                for body in ([b] + list(f.get("promoted", []) or [])) if b else []:
                    for bb in body.get("bbs", []):
                        t = bb.get("t", {})
                        fop = t.get("f") if isinstance(t, dict) else None
                        c = fop.get("c") if isinstance(fop, dict) else None
                        fr = c.get("fn") if isinstance(c, dict) else None
                        if isinstance(fr, dict):
                            for k in ("p", "rp"):
                                if fr.get(k) in ren:
                                    fr[k] = ren[fr[k]]

    @property
    def name(self):
        return self.config if self.role == "main" else self.config + "/" + self.role

    def fns(self, crate=None):
        if crate is None:
            for u in self.units.values():
                yield from u.fns
        else:
            u = self.units.get(crate)
            if u:
                yield from u.fns


_REF_PATHS = None


def _ref_paths():
    global _REF_PATHS
    if _REF_PATHS is None:
        p = os.path.join(VERIF, "tables", "paths.json")
        try:
            with open(p) as fh:
                _REF_PATHS = json.load(fh)
        except OSError:
            _REF_PATHS = {}
        if "paths" not in _REF_PATHS:
            _REF_PATHS = {"paths": _REF_PATHS, "sigs": {}}
    return _REF_PATHS


_LOADED = {}


def load(config):
    """Return the list of Programs of a configuration: the main graph and (if different) the host
    graph that cargo builds for the proc-macro crate."""
    if config in _LOADED:
        return _LOADED[config]
    d = extract(config)
    by_crate = {}
    seen = set()
    for path in sorted(glob.glob(d + "/*.json")):
        # the header (crate name, rustc args) is at the start of the file: dedupe identical units
        # (cargo compiles the proc-macro host graph twice) before parsing 10+ MB of JSON
        with open(path) as fh:
            head = fh.read(1 << 16)
        i = head.find('],"debug_assertions"')
        hdr = json.loads(head[:i] + "]}")
        key = (hdr["crate"], tuple(a for a in hdr["args"] if a.startswith("feature=") or a.startswith("force_bits")))
        if key in seen:
            continue
        seen.add(key)
        with open(path) as fh:
            raw = json.load(fh)
        u = Unit(raw, path)
        by_crate.setdefault(u.crate, []).append(u)
    main, host = [], []
    for c, us in by_crate.items():
        us.sort(key=lambda u: (len(u.features), len(u.fns)), reverse=True)
        main.append(us[0])
        if len(us) > 1:
            host.append(us[-1])
    progs = [Program(main, config, "main")]
    if host:
        progs.append(Program(host, config, "host"))
    if not os.environ.get("DASHU_NO_PATH_PINNING"):
        for P in progs:
            _inline_new_helpers(P)
    _LOADED[config] = progs
    return progs


def _inline_new_helpers(P):
    """`extract helper` tolerance for every rule: a private function that is not part of the reviewed tree
    (tables/paths.json), is not public, and is called only from other functions of its crate is spliced back
    into its callers (rules/inline.py) and hidden, so that the rules analyse the code the reviewed functions
    had before the extraction.  On the reviewed tree there is no such function and nothing happens."""
    refall = _ref_paths()
    reviewed = set(refall.get("sigs", {}))
    if not reviewed:
        return
    from . import inline, mir
    P.inlined_new = []
    for crate, u in list(P.units.items()):
        if not crate.startswith("dashu"):
            continue
        byp = {}
        for f in u.fns:
            byp.setdefault(f["p"], f)
        new = [f for f in u.fns if f["p"] not in reviewed and f.get("mir") and f.get("kind") != "Closure" and "{closure" not in f["p"]
               and not str(f.get("vis", "")).startswith("Public") and not f.get("trait")]
        if not new:
            continue
        callers = {}
        for f in u.fns:
            if not f.get("mir"):
                continue
            for bb, t, fr in mir.iter_calls(f["mir"], reachable_only=False):
                cp = fr and (fr.get("rp") or fr["p"])
                if cp in byp:
                    callers.setdefault(cp, set()).add(f["p"])
        # address-taken functions cannot be inlined away
        taken = set()
        for f in u.fns:
            if not f.get("mir"):
                continue
            for bb in f["mir"]["bbs"]:
                for st in bb["s"]:
                    if st["k"] == "as" and st["rv"].get("k") == "use":
                        c = (st["rv"].get("a") or {}).get("c")
                        if isinstance(c, dict) and isinstance(c.get("fn"), dict):
                            taken.add(c["fn"].get("p"))
        helpers = set()
        for f in new:
            cs = callers.get(f["p"], set()) - {f["p"]}
            if cs and f["p"] not in taken and f["mir"] and len(f["mir"]["bbs"]) <= 400:
                helpers.add(f["p"])
        # a helper that (transitively) calls itself stays a function
        def reaches(p, target, seen):
            for g in callers:
                pass
            return False
        if not helpers:
            continue
        new_fns = []
        for f in u.fns:
            if f["p"] in helpers:
                continue
            if f.get("mir") and any(((mir.callee(bb["t"]) or {}).get("rp") or (mir.callee(bb["t"]) or {}).get("p")) in helpers
                                    for bb in f["mir"]["bbs"] if bb["t"].get("k") == "call"):
                body, n = inline.inline_body(f, lambda fr, cp: byp.get(cp), lambda cp: cp in helpers)
                g = dict(f)
                g["mir"] = body
                g["inlined"] = n
                new_fns.append(g)
                if f["d"] in P.fn:
                    P.fn[f["d"]] = g
            else:
                new_fns.append(f)
        u.fns = new_fns
        P.inlined_new.extend(sorted(helpers))


if __name__ == "__main__":
    cfgs = sys.argv[1:] or ["dbg"]
    extract_many(cfgs)
    for c in cfgs:
        for p in load(c):
            print(p.name, {k: (len(u.fns), u.features) for k, u in p.units.items()})


# ---------------------------------------------------------------------------------------------
# Location-independent function identity.  rustc prints `crate::module::<impl Trait for T>::m` when an impl
# lives outside the module of T and `<T as Trait>::m` / `crate::module_of_T::T::m` when it lives inside, so a
# method that is merely *moved* between files changes its printed path.  Reviewed tables are keyed by the
# printed path; lookups fall back to this canonical identity (self type, trait, method), so that moving an
# impl does not look like "a reviewed function disappeared and an unreviewed one appeared".
import re as _re

_IMPL_TRAIT = _re.compile(r"^(?P<mod>.*?)::<impl (?P<tr>.+?) for (?P<ty>.+)>::(?P<m>[^:<>]+)$")
_IMPL_INH = _re.compile(r"^(?P<mod>.*?)::<impl (?P<ty>.+)>::(?P<m>[^:<>]+)$")
_AS_TRAIT = _re.compile(r"^<(?P<ty>.+) as (?P<tr>.+?)>::(?P<m>[^:<>]+)$")


def canon(p):
    """canonical identity `type|trait|method` (closure suffixes kept); free functions: `crate|fn|name`"""
    suffix = ""
    m = _re.search(r"(::\{closure#\d+\})+$", p)
    if m:
        suffix = m.group(0)
        p = p[:m.start()]
    for rx in (_IMPL_TRAIT, _AS_TRAIT):
        mm = rx.match(p)
        if mm:
            return "%s|%s|%s%s" % (mm.group("ty").replace("::<", "<"), mm.group("tr"), mm.group("m"), suffix)
    mm = _IMPL_INH.match(p)
    if mm:
        return "%s||%s%s" % (mm.group("ty").replace("::<", "<"), mm.group("m"), suffix)
    parts = p.split("::")
    # `crate::module::Type::<G>::method` / `crate::module::Type::method`
    if len(parts) >= 3:
        meth = parts[-1]
        owner = "::".join(parts[:-1])
        owner2 = _re.sub(r"::<", "<", owner)
        last = _re.sub(r"<.*$", "", owner2.rsplit("::", 1)[-1])
        if last[:1].isupper():
            return "%s||%s%s" % (owner2, meth, suffix)
    return "%s|fn|%s%s" % (parts[0], parts[-1], suffix)


def signature(f):
    """location- and name-independent signature of a function: crate, self type / trait of its impl, inputs, output"""
    return "%s|%s|%s|%s|%s" % (f.get("crate"), f.get("self_ty") or "", (f.get("trait") or "").split("<")[0], ",".join(f.get("inputs", [])), f.get("output", ""))


def skeleton(f):
    """order-insensitive shape of a body: primitive operations, aggregates, *external* callees by name, the
    number of calls into the dashu crates, switches and blocks.  Names of dashu functions are left out on
    purpose (they may have been renamed in the same change)."""
    b = f.get("mir")
    if not b:
        return ""
    from collections import Counter
    c = Counter()
    for bb in b["bbs"]:
        if bb.get("cu"):
            continue
        for st in bb["s"]:
            if st["k"] == "as":
                rv = st["rv"]
                k = rv["k"]
                if k in ("bin", "un"):
                    c[k + ":" + rv["op"]] += 1
                elif k == "agg":
                    c["agg:%s:%s" % (rv.get("adt") or rv.get("ak"), rv.get("vn"))] += 1
                elif k == "cast":
                    c["cast:" + str(rv.get("ck"))] += 1
                else:
                    c[k] += 1
        t = bb["t"]
        if t["k"] == "call":
            fop = t.get("f") or {}
            cc = fop.get("c") or {}
            fr = cc.get("fn") or {}
            cp = fr.get("rp") or fr.get("p") or "?"
            if cp.split("::", 1)[0].lstrip("<").startswith("dashu"):
                c["call:dashu"] += 1
            else:
                c["call:" + cp] += 1
        else:
            c["t:" + t["k"]] += 1
    return ";".join("%s=%d" % kv for kv in sorted(c.items()))


def in_table(path, table):
    """membership of a function path in a reviewed table (dict / set of printed paths), tolerant of moves"""
    if path in table:
        return path
    c = canon(path)
    for k in table:
        if canon(k) == c:
            return k
    return None
