"""Integer rules shared by C01 and C02:
   R01.1  no carry / borrow result is dropped (error-discipline dataflow)
   R01.2 / R02.2  algorithm dispatcher <-> scratch-memory estimator agreement (FDT over one integer)
   R01.3 / R02.3  sign dispatch of + - * / % and the Euclidean forms equals integer arithmetic in
                  every sign cell (FDT with summaries of the unsigned kernels)"""
from . import mir, sym, fdt
from .fdt import Big, Adt, sign_of, ordering
from .fdt_tables import base_summaries, CONSTS, _v, _cmp
from .mir import span_loc

# ------------------------------------------------------------------------------------------------
# R01.1
# ------------------------------------------------------------------------------------------------
CARRY_NAME_HINTS = ("_in_place", "add_signed", "sub_signed", "div_by_", "div_rem_", "mul_word", "add_word", "sub_word", "shl_in_place", "shr_in_place")
CARRY_TYPES = ("bool", "u64", "u32", "i64", "i32", "dashu_base::sign::Sign", "u128", "(u64, u64)")


def carry_functions(P):
    """functions whose result is a carry/borrow/remainder that must not be ignored: every
    #[must_use] fn of dashu_int plus the in-place kernels returning a word-sized scalar"""
    out = {}
    for f in P.fns("dashu_int"):
        if f["kind"] == "Closure" or f.get("output") in (None, "()"):
            continue
        file = mir.span_file(f["sp"])
        if f.get("must_use"):
            out[f["d"]] = f
            continue
        if any(x in file for x in ("/add.rs", "/mul/", "/shift.rs", "/div/", "/sqr/")) and f.get("output") in CARRY_TYPES \
                and any(h in f.get("name", "") for h in CARRY_NAME_HINTS) and any(t.startswith("&mut") for t in f.get("inputs", [])):
            out[f["d"]] = f
    return out


# deliberate discards: (caller suffix, kernel name) -> reason
REVIEWED_DISCARDS = {
    ("shift_ops::repr::shr_large", "shr_in_place"): "a right shift discards the bits shifted out (floor); the sign correction reads them separately",
    ("shift_ops::repr::shr_large_ref", "shr_in_place"): "a right shift discards the bits shifted out",
    ("root_ops::repr::sqrt_rem_large", "shr_in_place"): "normalisation shift undone: the shifted-out bits are zero by construction of the shift",
    ("root_ops::repr::sqrt_rem_large", "shr_in_place_one_word"): "drops the padding word added for the even-length normalisation",
    ("root::sqrt_rem", "shr_in_place_with_carry"): "halving step of the Karatsuba square root: the dropped bit is accounted in the remainder fix-up",
    ("convert::words_to_chunks", "shr_in_place"): "consumes the low chunk that was just copied out",
    ("convert::chunks_to_words", "shl_in_place"): "room for the shifted-in chunk was reserved by the caller",
    ("modular::div::inv_large", "shl_in_place"): "re-applies the ring's normalisation shift to a value < modulus: no overflow",
    ("modular::mul::mul_normalized", "div_rem_in_place"): "only the remainder is used; the quotient including its top carry is discarded",
    ("modular::mul::sqr_normalized", "div_rem_in_place"): "only the remainder is used",
    ("div_const::ConstLargeDivisor::rem_large", "div_rem_in_place"): "only the remainder is used",
    ("div_const::repr::rem_large_large", "div_rem_unshifted_in_place"): "only the remainder is used",
    ("gcd::lehmer::gcd_in_place", "div_rem_unshifted_in_place"): "only the remainder is used (Euclid step)",
    ("for dashu_int::repr::TypedRepr>::div", "fast_div_by_word_in_place"): "Div by a ConstDivisor discards the remainder",
    ("for dashu_int::repr::TypedRepr>::div", "fast_div_by_dword_in_place"): "Div by a ConstDivisor discards the remainder",
}


REVIEWED_PARTIAL = {}


def r01_1(res, programs, rid="R01.1"):
    res.rule(rid, "the result of every carry/borrow-returning kernel (all #[must_use] fns of dashu-int and the in-place word kernels) is used at every call site: branch, push, arithmetic, return or a debug_assert_zero! belief — never dropped")
    for P in programs:
        if "dashu_int" not in P.units:
            continue
        cfgname = P.name
        carry = carry_functions(P)
        if len(carry) < 30:
            res.anchor(rid, cfgname, "carry-returning kernels (found %d)" % len(carry))
            continue
        n = 0
        beliefs = 0
        for f in P.fns("dashu_int"):
            du = None
            for bb, t, fr in mir.iter_calls(f["mir"]):
                r = fr and fr.get("r")
                if r not in carry:
                    continue
                n += 1
                du = du or mir.defuse_of(f["mir"])
                dest = t["d"]["l"]
                uses = du.uses.get(dest, [])
                # a use that is only a StorageDead / drop does not count; uses list holds real reads
                real = [u for u in uses if not (u[1] == 't' and isinstance(u[2], dict) and u[2].get("k") == "drop")]
                callee = carry[r]["p"]
                ordinal = sum(1 for (b2, t2, f2) in mir.iter_calls(f["mir"]) if b2 < bb and f2 and f2.get("r") == r)
                key = "%s <- %s #%d" % (f["p"], callee.rsplit("::", 1)[1], ordinal)
                all_paths = True
                if dest != 0 and real and t["t"] is not None:
                    cfg = mir.cfg_of(f["mir"])
                    from .c19 import debug_regions
                    dbg = debug_regions(f["mir"])
                    reach = cfg.reachable()
                    # uses inside debug-only code (or pruned in release facts) are stated beliefs
                    use_blocks = {u[0] for u in real if u[0] in reach and u[0] not in dbg}
                    if use_blocks:
                        all_paths = cfg.must_pass(use_blocks, src=t["t"])
                    else:
                        beliefs += 1
                        res.ok(rid, cfgname, key + "|belief", nontrivial=False)
                        continue
                if dest != 0 and real and not all_paths:
                    kname = callee.rsplit("::", 1)[1]
                    rv = next((why for (cs, kn), why in REVIEWED_PARTIAL.items() if kn == kname and f["p"].endswith(cs)), None)
                    if rv:
                        res.ok(rid, cfgname, key + "|reviewed-partial", nontrivial=False)
                        res.assume("%s: %s reads the result of %s only on some paths — reviewed: %s" % (rid, f["p"], kname, rv))
                    else:
                        res.fail(rid, cfgname, key + "|path", "%s reads the carry/borrow returned by %s on some paths only: there is a path to return on which it is silently dropped" % (f["p"], callee), span_loc(t["sp"]))
                elif dest == 0 or real:
                    macs = mir.span_macros(t["sp"])
                    if "debug_assert_zero" in macs:
                        beliefs += 1
                        # the macro evaluates its argument unconditionally (the call is reachable in
                        # release facts too, see C19); the comparison itself is debug-only
                        res.ok(rid, cfgname, key + "|belief", nontrivial=False)
                    else:
                        res.ok(rid, cfgname, key, sample=dict(caller=f["p"], kernel=callee, uses=len(real)))
                else:
                    kname = callee.rsplit("::", 1)[1]
                    rv = next((why for (cs, kn), why in REVIEWED_DISCARDS.items() if kn == kname and f["p"].endswith(cs)), None)
                    if not rv and f.get("vis") != "public":
                        # helper extracted from reviewed functions: every caller of this private function has a
                        # reviewed discard of the same kernel
                        from .c17b import _callers
                        idx, taken = _callers(P)
                        cs_ = idx.get(f["p"], [])
                        if cs_ and f["p"] not in taken:
                            whys = [next((why for (cs, kn), why in REVIEWED_DISCARDS.items() if kn == kname and g["p"].endswith(cs)), None) for (g, _b, _t) in cs_]
                            if all(whys):
                                rv = "extracted helper; every caller is a reviewed site (%s)" % whys[0]
                    if rv:
                        res.ok(rid, cfgname, key + "|reviewed-discard", nontrivial=False)
                        res.assume("%s: %s discards the result of %s — reviewed: %s" % (rid, f["p"], kname, rv))
                    else:
                        res.fail(rid, cfgname, key, "%s ignores the carry/borrow returned by %s: a carry out of the top word would be silently lost" % (f["p"], callee), span_loc(t["sp"]))
        res.floor(rid, cfgname, n, 150, "call sites of carry-returning kernels")
        res.note("%s[%s]: %d call sites, %d consumed only by debug_assert_zero! (stated beliefs)" % (rid, cfgname, n, beliefs))


# ------------------------------------------------------------------------------------------------
# R01.2 / R02.2
# ------------------------------------------------------------------------------------------------

class Slice:
    def __init__(self, n):
        self.n = n

    def __repr__(self):
        return "[len %d]" % self.n


def _alg_summaries():
    S = base_summaries()
    S["core::slice::<impl [T]>::len"] = lambda ev, a, fr: a[0].n
    S["core::mem::swap"] = lambda ev, a, fr: _swap(a)
    def mark(alg, val):
        def f(ev, a, fr):
            ev.algs.append(alg)
            return val
        return f
    for alg in ("simple", "karatsuba", "toom_3", "divide_conquer"):
        for fn in ("add_signed_mul", "add_signed_mul_same_len", "div_rem_in_place", "square"):
            S["*::%s::%s" % (alg, fn)] = mark(alg, 0)
        for fn in ("memory_requirement_up_to", "memory_requirement_exact"):
            S["*::%s::%s" % (alg, fn)] = mark(alg, "layout")
    S["dashu_int::memory::zero_layout"] = mark("none", "layout")
    return S


def _swap(a):
    a[0].n, a[1].n = a[1].n, a[0].n
    return ()


def _class_of(r):
    if isinstance(r, tuple) and r and r[0] == "alg":
        return r[1]
    return r


def r01_2(res, programs, rid, which):
    res.rule(rid, "algorithm dispatcher and scratch-memory estimator select the same algorithm class for every operand length (exhaustive over all lengths up to 4x the largest threshold)")
    pairs = {
        "mul": [("dashu_int::mul::add_signed_mul", "dashu_int::mul::memory_requirement_up_to", "mul"),
                ("dashu_int::mul::add_signed_mul_same_len", "dashu_int::mul::memory_requirement_up_to", "mul_same"),
                ("dashu_int::sqr::sqr", "dashu_int::sqr::memory_requirement_exact", "sqr")],
        "div": [("dashu_int::div::div_rem_in_place", "dashu_int::div::memory_requirement_exact", "div")],
    }[which]
    for P in programs:
        if "dashu_int" not in P.units:
            continue
        cfgname = P.name
        fns = {f["p"]: f for f in P.fns("dashu_int")}
        thr = [int(c["v"]) for d, c in P.consts.items() if d.startswith("dashu_int::") and ("THRESHOLD" in d or "MAX_LEN" in d) and c["ty"] == "usize"]
        hi = 4 * max(thr) if thr else 1000
        S = _alg_summaries()
        # debug assertions inside the dispatchers are not part of the dispatch
        for disp, est, kind in pairs:
            fd, fe = fns.get(disp), fns.get(est)
            if fd is None or fe is None:
                res.anchor(rid, cfgname, "%s / %s" % (disp, est))
                continue
            bad = []
            und = None
            n = 0
            lens = range(2, hi + 1)
            for n1 in lens:
                for n0 in ((n1,) if kind != "div" and kind != "mul" else (n1, n1 + 1, n1 + hi // 2)):
                    if kind == "mul":
                        args_d = [Slice(n0 + n1), sign_of(1), Slice(n0), Slice(n1), "mem"]
                        args_e = [n0 + n1, n1]
                    elif kind == "mul_same":
                        args_d = [Slice(2 * n1), sign_of(1), Slice(n1), Slice(n1), "mem"]
                        args_e = [2 * n1, n1]
                    elif kind == "sqr":
                        args_d = [Slice(2 * n1), Slice(n1), "mem"]
                        args_e = [n1]
                    else:
                        args_d = [Slice(n0), Slice(n1), "fast", "mem"]
                        args_e = [n0, n1]
                    ev = fdt.Evaluator(P, S, CONSTS, inline={"dashu_int::mul::memory_requirement_up_to", "dashu_int::mul::add_signed_mul_same_len", "dashu_int::mul::add_signed_mul"})
                    ev.algs = []
                    try:
                        _run_skipping_debug(ev, fd, args_d)
                        rd = ev.algs[-1] if ev.algs else "?"
                        ev2 = fdt.Evaluator(P, S, CONSTS, inline={"dashu_int::mul::memory_requirement_up_to"})
                        ev2.algs = []
                        ev2.call(fe, args_e)
                        re_ = ev2.algs[-1] if ev2.algs else "?"
                    except fdt.Undecided as e:
                        und = str(e)
                        break
                    except fdt.Panic as e:
                        und = "panic " + str(e)
                        break
                    n += 1
                    # simple algorithms need no scratch memory
                    need = {"simple": "none"}.get(rd, rd)
                    if need != re_ and not (need == "none"):
                        bad.append((n0, n1, rd, re_))
                if und:
                    break
            key = "%s vs %s" % (disp.rsplit("::", 2)[-2] + "::" + disp.rsplit("::", 1)[1], est.rsplit("::", 2)[-2] + "::" + est.rsplit("::", 1)[1])
            if und:
                res.anchor(rid, cfgname, key + ": evaluator undecided (%s)" % und[:140])
            elif bad:
                res.fail(rid, cfgname, key, "for operand lengths %s the dispatcher selects `%s` but the memory estimator prices `%s`: the scratch allocation would be too small (`internal error: not enough memory allocated`)" % (bad[0][:2], bad[0][2], bad[0][3]), span_loc(fe["sp"]))
            else:
                res.ok(rid, cfgname, key, sample=dict(dispatcher=disp, estimator=est, lengths_checked=n, thresholds=sorted(set(thr))))


def _run_skipping_debug(ev, fn, args):
    # dispatchers start with debug_assert!s on slice contents (iter().all(..)); in the release facts
    # these are pruned.  In debug facts evaluate them with permissive summaries.
    ev.summaries = dict(ev.summaries)
    ev.summaries["core::slice::<impl [T]>::iter"] = lambda e, a, fr: "iter"
    ev.summaries["*Iterator>::all"] = lambda e, a, fr: 1
    ev.summaries["*Iterator::all"] = lambda e, a, fr: 1
    return ev.call(fn, args)


# ------------------------------------------------------------------------------------------------
# R01.3 / R02.3
# ------------------------------------------------------------------------------------------------
IBIG, UBIG = "dashu_int::ibig::IBig", "dashu_int::ubig::UBig"


def ibig(v):
    return Adt(IBIG, "IBig", [Big(v, "Repr")], 0)


def ubig(v):
    return Adt(UBIG, "UBig", [Big(v, "Repr")], 0)


def _num(x):
    """numeric value of an evaluator result"""
    if isinstance(x, Adt) and x.adt in (IBIG, UBIG):
        return _v(x.fields[0])
    if isinstance(x, Big):
        return x.v
    if isinstance(x, tuple):
        return tuple(_num(e) for e in x)
    return x


def _tdiv(a, b):
    q = abs(a) // abs(b)
    return -q if (a < 0) != (b < 0) else q


def _sign_summaries():
    S = base_summaries()
    mag = lambda x: Big(abs(_v(x)), "Mag")
    rep = lambda v: Big(v, "Repr")

    def repr_of(x):
        if isinstance(x, Adt):
            return x.fields[0]
        return x
    S["dashu_int::ibig::IBig::into_sign_repr"] = lambda ev, a, fr: (sign_of(_v(repr_of(a[0]))), mag(repr_of(a[0])))
    S["dashu_int::ibig::IBig::as_sign_repr"] = lambda ev, a, fr: (sign_of(_v(repr_of(a[0]))), mag(repr_of(a[0])))
    S["dashu_int::ubig::UBig::into_repr"] = lambda ev, a, fr: mag(repr_of(a[0]))
    S["dashu_int::ubig::UBig::repr"] = lambda ev, a, fr: mag(repr_of(a[0]))
    S["dashu_int::repr::Repr::with_sign"] = lambda ev, a, fr: rep(abs(_v(a[0])) * (1 if a[1].variant == "Positive" else -1))
    S["dashu_int::repr::Repr::into_typed"] = lambda ev, a, fr: mag(a[0])
    S["dashu_int::repr::Repr::as_typed"] = lambda ev, a, fr: mag(a[0])
    S["dashu_int::repr::Repr::is_zero"] = lambda ev, a, fr: int(_v(a[0]) == 0)
    S["dashu_int::repr::Repr::neg"] = lambda ev, a, fr: rep(-_v(a[0]))
    S["dashu_int::repr::TypedRepr::as_ref"] = lambda ev, a, fr: a[0]
    S["dashu_int::repr::TypedReprRef::<'a>::as_ref"] = lambda ev, a, fr: a[0]
    S["<dashu_base::sign::Sign as core::ops::arith::Mul>::mul"] = lambda ev, a, fr: sign_of(1 if a[0].variant == a[1].variant else -1)
    S["<dashu_base::sign::Sign as core::ops::arith::Neg>::neg"] = lambda ev, a, fr: sign_of(-1 if a[0].variant == "Positive" else 1)
    k = "dashu_int::%s::repr::<impl %s"
    # unsigned kernels on magnitudes (TypedRepr / TypedReprRef in any ownership combination)
    S["*add_ops::repr::*Add*::add"] = None
    return S


def _kernel(path):
    """summary of an unsigned kernel, selected by its path"""
    if not path.startswith("dashu_int::"):
        return None
    m = {"add_ops::repr::": {"add": lambda a, b: a + b, "sub": lambda a, b: _usub(a, b)},
         "add_ops::repr_signed::": {"sub_signed": lambda a, b: a - b},
         "mul_ops::repr::": {"mul": lambda a, b: a * b},
         "div_ops::repr::": {"div": lambda a, b: _chk(b) and a // b, "rem": lambda a, b: _chk(b) and a % b,
                             "div_rem": lambda a, b: _chk(b) and (a // b, a % b)}}
    for mod, tbl in m.items():
        if ("dashu_int::" + mod) in path and "TypedRepr" in path:
            name = path.rsplit("::", 1)[1]
            if name in tbl:
                return tbl[name]
    return None


def _usub(a, b):
    if a < b:
        raise fdt.Panic("UBig result must not be negative")
    return a - b


def _chk(b):
    if b == 0:
        raise fdt.Panic("divisor must not be 0")
    return True


class SignEval(fdt.Evaluator):
    def do_call(self, path, fr, args, caller):
        k = _kernel(path)
        if k is not None and len(args) == 2:
            r = k(abs(_v(args[0])), abs(_v(args[1])))
            if isinstance(r, tuple):
                return tuple(Big(x, "Repr") for x in r)
            return Big(r, "Repr")
        if path.endswith("TypedRepr>::add_one") or path.endswith("::add_one"):
            return Big(_v(args[0]) + 1, "Repr")
        if path.endswith("::sub_one"):
            return Big(_v(args[0]) - 1, "Repr")
        return super().do_call(path, fr, args, caller)


OPS = {
    # trait base name -> (method, oracle(a, b), needs non-zero divisor)
    "core::ops::arith::Add": ("add", lambda a, b: a + b, False),
    "core::ops::arith::Sub": ("sub", lambda a, b: a - b, False),
    "core::ops::arith::Mul": ("mul", lambda a, b: a * b, False),
}
DIV_OPS = {
    "core::ops::arith::Div": ("div", lambda a, b: _tdiv(a, b), True),
    "core::ops::arith::Rem": ("rem", lambda a, b: a - b * _tdiv(a, b), True),
    "dashu_base::ring::DivRem": ("div_rem", lambda a, b: (_tdiv(a, b), a - b * _tdiv(a, b)), True),
    "dashu_base::ring::DivEuclid": ("div_euclid", lambda a, b: _eu(a, b)[0], True),
    "dashu_base::ring::RemEuclid": ("rem_euclid", lambda a, b: _eu(a, b)[1], True),
    "dashu_base::ring::DivRemEuclid": ("div_rem_euclid", lambda a, b: _eu(a, b), True),
}


def _eu(a, b):
    r = a % abs(b)
    q = (a - r) // b
    return (q, r)


def r_sign_tables(res, programs, rid, ops):
    res.rule(rid, "the sign dispatch of every ownership form of the operator on IBig x IBig, UBig x IBig and IBig x UBig yields, in every sign cell and magnitude ordering, the value integer arithmetic prescribes (unsigned kernels summarised as exact)")
    A = (-7, -6, -2, 0, 2, 6, 7)
    B = (-7, -3, -2, 2, 3, 7)
    for P in programs:
        if "dashu_int" not in P.units:
            continue
        cfgname = P.name
        S = _sign_summaries()
        S = {k: v for k, v in S.items() if v is not None}
        nforms = 0
        for f in P.fns("dashu_int"):
            tr = f.get("trait", "")
            base = tr.split("<", 1)[0]
            if base not in ops or f.get("name") != ops[base][0] or f["kind"] == "Closure":
                continue
            from .c17b import strip_ref_ty
            st = strip_ref_ty(f.get("self_ty", ""))
            rhs = tr[len(base) + 1:-1] if "<" in tr else st
            rt = strip_ref_ty(rhs)
            if st not in (IBIG, UBIG) or rt not in (IBIG, UBIG) or (st == UBIG and rt == UBIG):
                continue
            if "ConstDivisor" in tr:
                continue
            nforms += 1
            meth, oracle, nz = ops[base]
            bad = None
            und = None
            ncell = 0
            for a in A:
                if st == UBIG and a < 0:
                    continue
                for b in (B if nz else B + (0,)):
                    if rt == UBIG and b < 0:
                        continue
                    ev = SignEval(P, S, CONSTS)
                    x = ibig(a) if st == IBIG else ubig(a)
                    y = ibig(b) if rt == IBIG else ubig(b)
                    try:
                        r = _num(ev.call(f, [x, y]))
                    except fdt.Undecided as e:
                        und = str(e)
                        break
                    except fdt.Panic as e:
                        r = ("panic", str(e))
                    ncell += 1
                    w = oracle(a, b)
                    if r != w:
                        bad = bad or (a, b, r, w)
                if und:
                    break
            key = "%s sign table" % f["p"]
            if und:
                res.anchor(rid, cfgname, key + ": evaluator undecided (%s)" % und[:140])
            elif bad:
                res.fail(rid, cfgname, key, "%s: for (%d, %d) the sign dispatch yields %s, integer arithmetic requires %s" % (f["p"], bad[0], bad[1], bad[2], bad[3]), span_loc(f["sp"]))
            else:
                res.ok(rid, cfgname, key, sample=dict(form=f["p"], cells=ncell))
        res.floor(rid, cfgname, nforms, 4 * len(ops), "operator forms with a sign dispatch")
