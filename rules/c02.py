"""C02 — integer division conventions (necessary conditions): sign conventions of all truncating
and Euclidean forms, is_multiple_of == (rem is zero), zero-divisor panics, dispatcher/estimator
agreement.  Not decided: quotient-digit estimation, normalisation shifts, ConstDivisor reciprocals."""
from . import intalg, mir, sym, c16, guards
from .c17b import rels_at

PROP = "C02"
CONFIGS = {"quick": ["dbg", "rel"], "thorough": ["dbg", "rel", "feat", "w32", "nostd"]}
LEVEL = ("Necessary structural conditions of the division contract, decided exhaustively: (R02.3) every ownership form "
         "of / % div_rem div_euclid rem_euclid div_rem_euclid on IBig/UBig mixes returns, in every sign cell, zero / "
         "non-zero remainder case and magnitude ordering, the quotient and remainder that the documented convention "
         "prescribes (truncation toward zero with the remainder taking the dividend's sign; 0 <= r < |b| for the "
         "Euclidean forms) when the unsigned kernels are exact; a zero divisor reaches the kernel's panic; (R02.2) the "
         "division dispatcher and its memory estimator agree for all length pairs; (R02.1) is_multiple_of is the "
         "remainder followed by a zero test; (R16.1c, shared) every division entry passes a zero-divisor test. "
         "The long-division kernels and ConstDivisor arithmetic are numeric and not decided.")
TRUSTED = ["rustc MIR", "summaries of the unsigned kernels as exact arithmetic (rules/intalg.py)", "evaluated threshold constants"]
NOTE = "Decides the sign/convention layer and guards; the division algorithms underneath are not decided."


def run(res, programs, tier):
    intalg.r_sign_tables(res, programs, "R02.3", intalg.DIV_OPS)
    intalg.r01_2(res, programs, "R02.2", "div")
    from . import c19
    c19.shared_r19_2(res, programs)
    res.rule("R02.1", "UBig/IBig::is_multiple_of(d) is `self % d` followed by is_zero (shape of the body)")
    res.rule("R02.4", "division by a prepared ConstDivisor: the long-division kernel is entered whenever the dividend has at least as many words as the divisor (no strict length guard: an equal-length dividend can still exceed the divisor)")
    res.rule("R16.1c", "(shared with C16) every integer division entry passes a zero-divisor test with a diverging edge")
    for P in programs:
        if "dashu_int" not in P.units:
            continue
        n = 0
        for f in P.fns("dashu_int"):
            if f.get("name") == "is_multiple_of" and f["kind"] != "Closure":
                n += 1
                cal = [(fr.get("rp") or fr["p"]) for bb, t, fr in mir.iter_calls(f["mir"]) if fr]
                has_rem = any("::rem" in c or "is_multiple_of" in c or "::div_rem" in c for c in cal)
                has_zero = any(c.endswith("::is_zero") or "is_multiple_of" in c for c in cal) or any(s["k"] == "as" and s["rv"]["k"] == "bin" and s["rv"]["op"] == "Eq" for i, j, s in mir.iter_stmts(f["mir"]))
                key = f["p"]
                if has_rem and has_zero:
                    res.ok("R02.1", P.name, key, sample=dict(function=f["p"], calls=cal[:5]))
                else:
                    res.fail("R02.1", P.name, key, "%s is not `remainder == 0` (calls %s)" % (f["p"], cal[:5]), mir.span_loc(f["sp"]))
        res.floor("R02.1", P.name, n, 2, "is_multiple_of bodies")
        _r02_4(res, P, P.name)
        c16._r16_1c(res, P, P.name)


def _is_len(t):
    txt = sym.term_str(t, 300)
    return "::len" in txt or "PtrMetadata" in txt


def _r02_4(res, P, cfgname):
    n = 0
    for f in P.fns("dashu_int"):
        if not f["p"].startswith("dashu_int::div_const::"):
            continue
        S = None
        for bb, t, fr in mir.iter_calls(f["mir"]):
            cp = fr and (fr.get("rp") or fr["p"]) or ""
            if cp not in ("dashu_int::div::div_rem_in_place", "dashu_int::div::div_rem_unshifted_in_place"):
                continue
            S = S or sym.Sym(f)
            cfg = mir.cfg_of(f["mir"])
            n += 1
            strict = [(a, b) for (op, a, b) in rels_at(S, cfg, bb) if op == 'Lt' and _is_len(a) and _is_len(b)]
            key = "%s: long division entered for len(dividend) >= len(divisor)" % f["p"]
            if strict:
                res.fail("R02.4", cfgname, key, "%s enters the division kernel only when %s < %s (strict): a dividend with as many words as the divisor but a larger value is returned unreduced" % (f["p"], sym.term_str(strict[0][0], 60), sym.term_str(strict[0][1], 60)), mir.span_loc(t["sp"]))
            else:
                res.ok("R02.4", cfgname, key)
    res.floor("R02.4", cfgname, n, 4, "division kernel calls in div_const")


LEVEL = LEVEL + ' Also (R02.4) the ConstDivisor path enters the long-division kernel whenever the dividend is at least as long as the divisor, and (R19.2, shared) no division step sits inside a debug assertion.'
TECHNIQUE = 'static analysis of MIR: finite sign/convention tables (FDT) over all ownership forms, dispatcher-estimator agreement by abstract evaluation, must-pass-through zero-divisor guards, debug-region effect analysis'
