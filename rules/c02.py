"""C02 — integer division conventions (necessary conditions): sign conventions of all truncating
and Euclidean forms, is_multiple_of == (rem is zero), zero-divisor panics, dispatcher/estimator
agreement.  Not decided: quotient-digit estimation, normalisation shifts, ConstDivisor reciprocals."""
from . import intalg, mir, sym, c16, guards
from .c17b import rels_at

PROP = "C02"
CONFIGS = {"quick": ["dbg", "rel"], "thorough": ["dbg", "rel", "feat", "w32", "nostd"]}
LEVEL = ("Necessary structural conditions of the division contract, decided exhaustively: (R02.3) every ownership form "
         "of / % div_rem div_euclid rem_euclid div_rem_euclid on IBig/UBig mixes returns, in every sign cell, zero / "
         "non-zero remainder case and magnitude ordering, the quotient and remainder that the documented convention "
         "prescribes (truncation toward zero with the remainder taking the dividend's sign; 0 <= r < |b| for the "
         "Euclidean forms) when the unsigned kernels are exact; a zero divisor reaches the kernel's panic; (R02.2) the "
         "division dispatcher and its memory estimator agree for all length pairs; (R02.1) is_multiple_of is the "
         "remainder followed by a zero test; (R16.1c, shared) every division entry passes a zero-divisor test. "
         "The long-division kernels and ConstDivisor arithmetic are numeric and not decided.")
TRUSTED = ["rustc MIR", "summaries of the unsigned kernels as exact arithmetic (rules/intalg.py)", "evaluated threshold constants"]
NOTE = "Decides the sign/convention layer and guards; the division algorithms underneath are not decided."


def run(res, programs, tier):
    for P in programs:
        if "dashu_int" in P.units:
            _r02_5(res, P, P.name)
            _r02_6(res, P, P.name)
    intalg.r_sign_tables(res, programs, "R02.3", intalg.DIV_OPS)
    intalg.r01_2(res, programs, "R02.2", "div")
    from . import c19
    c19.shared_r19_2(res, programs)
    res.rule("R02.1", "UBig/IBig::is_multiple_of(d) is `self % d` followed by is_zero (shape of the body)")
    res.rule("R02.4", "division by a prepared ConstDivisor: the long-division kernel is entered whenever the dividend has at least as many words as the divisor (no strict length guard: an equal-length dividend can still exceed the divisor)")
    res.rule("R16.1c", "(shared with C16) every integer division entry passes a zero-divisor test with a diverging edge")
    for P in programs:
        if "dashu_int" not in P.units:
            continue
        n = 0
        for f in P.fns("dashu_int"):
            if f.get("name") == "is_multiple_of" and f["kind"] != "Closure":
                n += 1
                cal = [(fr.get("rp") or fr["p"]) for bb, t, fr in mir.iter_calls(f["mir"]) if fr]
                has_rem = any("::rem" in c or "is_multiple_of" in c or "::div_rem" in c for c in cal)
                has_zero = any(c.endswith("::is_zero") or "is_multiple_of" in c for c in cal) or any(s["k"] == "as" and s["rv"]["k"] == "bin" and s["rv"]["op"] == "Eq" for i, j, s in mir.iter_stmts(f["mir"]))
                key = f["p"]
                if has_rem and has_zero:
                    res.ok("R02.1", P.name, key, sample=dict(function=f["p"], calls=cal[:5]))
                else:
                    res.fail("R02.1", P.name, key, "%s is not `remainder == 0` (calls %s)" % (f["p"], cal[:5]), mir.span_loc(f["sp"]))
        res.floor("R02.1", P.name, n, 2, "is_multiple_of bodies")
        _r02_4(res, P, P.name)
        c16._r16_1c(res, P, P.name)


def _is_len(t):
    txt = sym.term_str(t, 300)
    return "::len" in txt or "PtrMetadata" in txt


def _r02_4(res, P, cfgname):
    n = 0
    for f in P.fns("dashu_int"):
        if not f["p"].startswith("dashu_int::div_const::"):
            continue
        S = None
        for bb, t, fr in mir.iter_calls(f["mir"]):
            cp = fr and (fr.get("rp") or fr["p"]) or ""
            if cp not in ("dashu_int::div::div_rem_in_place", "dashu_int::div::div_rem_unshifted_in_place"):
                continue
            S = S or sym.Sym(f)
            cfg = mir.cfg_of(f["mir"])
            n += 1
            strict = [(a, b) for (op, a, b) in rels_at(S, cfg, bb) if op == 'Lt' and _is_len(a) and _is_len(b)]
            key = "%s: long division entered for len(dividend) >= len(divisor)" % f["p"]
            if strict:
                res.fail("R02.4", cfgname, key, "%s enters the division kernel only when %s < %s (strict): a dividend with as many words as the divisor but a larger value is returned unreduced" % (f["p"], sym.term_str(strict[0][0], 60), sym.term_str(strict[0][1], 60)), mir.span_loc(t["sp"]))
            else:
                res.ok("R02.4", cfgname, key)
    res.floor("R02.4", cfgname, n, 4, "division kernel calls in div_const")


# ---------------------------------------------------------------------------------------------
# R02.5  precondition of the 2-by-1 division kernel.  `Normalized2by1Divisor::div_rem_2by1(n)` requires
# high(n) < d (the quotient must fit one word); num-modular only debug_asserts it.  At every call site
# the high word of the dividend must be bounded by shape:
#   remainder  - the remainder (.1) of an earlier division by a normalised divisor, or 0-initialised and
#                loop-carried from such remainders;
#   overflow   - the word shifted out by shl_dword(x, shift) / (extend_word(w) << shift): < 2^shift <= d;
#   guarded    - a value defined as `hi - d` on the `hi >= d` edge and `hi` on the `hi < d` edge
#                (one conditional subtraction suffices because d has its top bit set).
# Found F26: ConstSingleDivisor::rem_dword passed an arbitrary double word when shift == 0.
REVIEWED_2BY1 = {
    "dashu_int::fmt::non_power_two::PreparedDword::new": "q = [q0, q1] << shift with q1 < 2^(2*shift) and shift <= 4 (argument in the source comment): high(q) < 2^(3*shift) < range_per_word << shift",
}
REM_CALLS = ("::div_rem_2by1", "::div_rem_1by1", "::fast_rem_by_normalized_word", "::div_rem_3by2")


def _hi_ok(t, S, cfg, du, fn, depth=0):
    from . import sym as _sym
    t = _sym.strip_casts(t)
    if not isinstance(t, tuple) or depth > 6:
        return None
    if t[0] == "const" and t[1] == 0:
        return "zero"
    if t[0] == "place" and isinstance(t[1], tuple) and t[1][0] == "call":
        cp = t[1][1]
        if cp.endswith(REM_CALLS) and t[2] and t[2][0] == ".1":
            return "remainder of " + cp.rsplit("::", 1)[-1]
        if cp.endswith("::shl_dword") and t[2] and t[2][0] == ".2":
            return "word shifted out by shl_dword"
    if t[0] == "call" and t[1].endswith("::fast_rem_by_normalized_word"):
        return "remainder of fast_rem_by_normalized_word"
    if t[0] == "var":
        whys = []
        for (bb, idx, node) in du.defs.get(t[1], []):
            if bb not in cfg.reachable():
                continue
            if idx == "t":
                cp = mir.callee_path(node) or ""
                if cp.endswith("::fast_rem_by_normalized_word"):
                    whys.append("remainder")
                    continue
                if cp.endswith("::shift::shl_in_place"):
                    whys.append("bits shifted out by the normalising shl_in_place (< 2^shift)")
                    continue
                return None
            if node["k"] != "as":
                return None
            if node["p"].get("p"):
                # tuple destructuring of a call result into the local is not expected here
                return None
            rv = S.rvalue(node["rv"])
            rv0 = _sym.strip_casts(rv)
            w = _hi_ok(rv0, S, cfg, du, fn, depth + 1)
            if w:
                whys.append(w)
                continue
            # conditional subtraction:  hi - d on the hi >= d edge, hi itself on the hi < d edge
            cons = [c for c in guards.constraints_at(S, cfg, bb) if c[0] == "rel"]
            ok = False
            if rv0[0] == "bin" and rv0[1] == "Sub":
                a, d = _sym.strip_casts(rv0[2]), _sym.strip_casts(rv0[3])
                if any((op in ("Ge", "Gt") and _sym.strip_casts(A) == a and _sym.strip_casts(B) == d) or
                       (op in ("Le", "Lt") and _sym.strip_casts(B) == a and _sym.strip_casts(A) == d) for _, op, A, B in cons) and _is_norm_divisor(d):
                    ok = True
            else:
                if any((op == "Lt" and _sym.strip_casts(A) == rv0 and _is_norm_divisor(_sym.strip_casts(B))) or
                       (op == "Gt" and _sym.strip_casts(B) == rv0 and _is_norm_divisor(_sym.strip_casts(A))) for _, op, A, B in cons):
                    ok = True
            if not ok:
                return None
            whys.append("guarded by a comparison with the normalised divisor")
        return "; ".join(sorted(set(whys))) if whys else None
    return None


def _is_norm_divisor(t):
    return isinstance(t, tuple) and t[0] == "call" and t[1].endswith(("::normalized_divisor", "::divisor"))


def _r02_5(res, P, cfgname):
    from . import sym as _sym
    res.rule("R02.5", "every call of the 2-by-1 division kernel passes a dividend whose high word is bounded by shape (an earlier remainder, the overflow word of the normalising shift, or a conditional subtraction of the divisor)")
    n = 0
    for f in P.fns("dashu_int"):
        b = f.get("mir")
        if not b:
            continue
        S = cfg = du = None
        k = 0
        for bb, t, fr in mir.iter_calls(b):
            cp = fr and (fr.get("rp") or fr["p"])
            if not cp or not cp.endswith("::div_rem_2by1") or len(t["a"]) < 2:
                continue
            if S is None:
                S, cfg, du = _sym.Sym(f), mir.cfg_of(b), mir.defuse_of(b)
            k += 1
            n += 1
            a = _sym.strip_casts(S.operand(t["a"][1]))
            key = "%s div_rem_2by1 #%d" % (f["p"], k)
            why = None
            if a[0] == "call" and a[1].endswith("::double_word") and len(a[2]) == 2:
                why = _hi_ok(a[2][1], S, cfg, du, f)
            elif a[0] == "bin" and a[1] == "Shl":
                x = _sym.strip_casts(a[2])
                if x[0] == "call" and x[1].endswith("::extend_word"):
                    why = "extend_word(w) << shift: the high word is w >> (BITS - shift) < 2^shift"
                elif x[0] == "call" and x[1].endswith("::double_word") and f["p"] in REVIEWED_2BY1:
                    why = "reviewed: " + REVIEWED_2BY1[f["p"]]
            if why:
                res.ok("R02.5", cfgname, key, sample=dict(function=f["p"], dividend=_sym.term_str(a, 100), high_word=why))
            else:
                res.fail("R02.5", cfgname, key, "%s calls div_rem_2by1 with `%s`: nothing bounds the high word below the divisor (the kernel only debug_asserts it): a dividend whose high word is >= the divisor panics in debug builds and is unspecified in release builds" % (f["p"], _sym.term_str(a, 100)), mir.span_loc(t["sp"]))
    res.floor("R02.5", cfgname, n, 10, "call sites of div_rem_2by1")


LEVEL = LEVEL + ' Also (R02.4) the ConstDivisor path enters the long-division kernel whenever the dividend is at least as long as the divisor, and (R19.2, shared) no division step sits inside a debug assertion.'
TECHNIQUE = 'static analysis of MIR: finite sign/convention tables (FDT) over all ownership forms, dispatcher-estimator agreement by abstract evaluation, must-pass-through zero-divisor guards, debug-region effect analysis'
LEVEL = LEVEL + ' (R02.5) every call of the 2-by-1 division kernel passes a dividend whose high word is bounded by shape (its debug-only precondition).'


# ---- R02.6: a count that is None for "unbounded" is never ordered with Option's derived ordering ---------------
# trailing_zeros() / trailing_ones() return None for the operand whose run never ends (zero, resp. -1): None
# stands for "infinitely many".  Option's derived ordering puts None *below* every Some(_), the opposite of that
# meaning, so a `<` / `min` / `cmp` on such results decides the zero operand wrongly (0 is a multiple of
# everything and has more trailing zeros than any divisor).  The results must be taken apart (match, if let,
# unwrap, map, ...) before they are compared.
import re as _re
_NONE_UNBOUNDED = ("trailing_zeros", "trailing_ones", "trailing_ones_neg")
# the comparison is recognised by its callee (the impl for Option, the provided methods of the traits, or the free
# functions); its operand is known to be the Option itself because only copies / references of the result are followed
_OPT_ORD = _re.compile(r"(Option<.*> as core::cmp::(PartialOrd|Ord)(<.*>)?>|^core::cmp::(PartialOrd|Ord))::(lt|le|gt|ge|partial_cmp|cmp|max|min|clamp)$"
                       r"|^core::cmp::(max|min|max_by|min_by)(::<.*>)?$")


def _r02_6(res, P, cfgname):
    res.rule("R02.6", "an Option-valued bit count whose None means 'unbounded' (trailing_zeros / trailing_ones of 0 / -1) is never "
                      "compared with Option's derived ordering (None < Some), which inverts that meaning")
    n = 0
    for f in P.fns():
        body = f.get("mir")
        if not body or not f["p"].startswith("dashu_"):
            continue
        prods = []
        for bb, t, fr in mir.iter_calls(body):
            cp = fr and (fr.get("rp") or fr["p"])
            if cp and cp.rsplit("::", 1)[-1] in _NONE_UNBOUNDED and "dashu_" in cp and "Option" in str(body["locals"][t["d"]["l"]]):
                prods.append((bb, t, cp))
        if not prods:
            continue
        du = mir.defuse_of(body)
        for k, (bb, t, cp) in enumerate(prods):
            n += 1
            # locals holding the result or a reference / copy of it (assignments only, not through calls)
            seen, st = set(), [t["d"]["l"]]
            while st:
                l = st.pop()
                if l in seen:
                    continue
                seen.add(l)
                for (b2, idx, node) in du.uses.get(l, []):
                    if idx != "t" and node["k"] == "as" and node["rv"]["k"] in ("use", "ref", "copy", "cast", "addr"):
                        st.append(node["p"]["l"])
            bad = None
            for b2, t2, fr2 in mir.iter_calls(body):
                cp2 = fr2 and (fr2.get("rp") or fr2["p"])
                if not cp2 or not _OPT_ORD.search(cp2):
                    continue
                used = set()
                mir.walk_places(t2["a"], lambda p: used.add(p["l"]))
                if used & seen:
                    bad = (cp2, t2)
                    break
            key = "%s|%s#%d" % (f["p"], cp.rsplit("::", 1)[-1], k)
            if bad:
                res.fail("R02.6", cfgname, key, "%s orders the Option result of %s with %s: None (unbounded) sorts below every Some(_)"
                         % (f["p"], cp, bad[0]), mir.span_loc(bad[1].get("sp") or f["sp"]))
            else:
                res.ok("R02.6", cfgname, key, sample=dict(function=f["p"], producer=cp))
    res.floor("R02.6", cfgname, n, 6, "uses of trailing_zeros / trailing_ones results")
LEVEL = LEVEL + ' (R02.6) the Option results of trailing_zeros / trailing_ones, whose None stands for an unbounded run, are never ordered with Option\'s derived ordering (0 is a multiple of everything).'
TECHNIQUE = TECHNIQUE + "; use-form rule for Option-valued bit counts (never ordered by Option's derived ordering)"
