"""C02 — integer division conventions (necessary conditions): sign conventions of all truncating
and Euclidean forms, is_multiple_of == (rem is zero), zero-divisor panics, dispatcher/estimator
agreement.  Not decided: quotient-digit estimation, normalisation shifts, ConstDivisor reciprocals."""
from . import intalg, mir, sym, c16

PROP = "C02"
CONFIGS = {"quick": ["dbg", "rel"], "thorough": ["dbg", "rel", "feat", "w32", "nostd"]}
LEVEL = ("Necessary structural conditions of the division contract, decided exhaustively: (R02.3) every ownership form "
         "of / % div_rem div_euclid rem_euclid div_rem_euclid on IBig/UBig mixes returns, in every sign cell, zero / "
         "non-zero remainder case and magnitude ordering, the quotient and remainder that the documented convention "
         "prescribes (truncation toward zero with the remainder taking the dividend's sign; 0 <= r < |b| for the "
         "Euclidean forms) when the unsigned kernels are exact; a zero divisor reaches the kernel's panic; (R02.2) the "
         "division dispatcher and its memory estimator agree for all length pairs; (R02.1) is_multiple_of is the "
         "remainder followed by a zero test; (R16.1c, shared) every division entry passes a zero-divisor test. "
         "The long-division kernels and ConstDivisor arithmetic are numeric and not decided.")
TRUSTED = ["rustc MIR", "summaries of the unsigned kernels as exact arithmetic (rules/intalg.py)", "evaluated threshold constants"]
NOTE = "Decides the sign/convention layer and guards; the division algorithms underneath are not decided."


def run(res, programs, tier):
    intalg.r_sign_tables(res, programs, "R02.3", intalg.DIV_OPS)
    intalg.r01_2(res, programs, "R02.2", "div")
    res.rule("R02.1", "UBig/IBig::is_multiple_of(d) is `self % d` followed by is_zero (shape of the body)")
    res.rule("R16.1c", "(shared with C16) every integer division entry passes a zero-divisor test with a diverging edge")
    for P in programs:
        if "dashu_int" not in P.units:
            continue
        n = 0
        for f in P.fns("dashu_int"):
            if f.get("name") == "is_multiple_of" and f["kind"] != "Closure":
                n += 1
                cal = [(fr.get("rp") or fr["p"]) for bb, t, fr in mir.iter_calls(f["mir"]) if fr]
                has_rem = any("::rem" in c or "is_multiple_of" in c or "::div_rem" in c for c in cal)
                has_zero = any(c.endswith("::is_zero") or "is_multiple_of" in c for c in cal) or any(s["k"] == "as" and s["rv"]["k"] == "bin" and s["rv"]["op"] == "Eq" for i, j, s in mir.iter_stmts(f["mir"]))
                key = f["p"]
                if has_rem and has_zero:
                    res.ok("R02.1", P.name, key, sample=dict(function=f["p"], calls=cal[:5]))
                else:
                    res.fail("R02.1", P.name, key, "%s is not `remainder == 0` (calls %s)" % (f["p"], cal[:5]), mir.span_loc(f["sp"]))
        res.floor("R02.1", P.name, n, 2, "is_multiple_of bodies")
        c16._r16_1c(res, P, P.name)
