"""TS — typestate by reaching definitions over MIR, interprocedural by function summaries.

A *domain* supplies the semantic rules; the engine supplies the dataflow:

  state(local, proj)  =  meet over every definition of the local (flow-insensitive, sound):
      use/move/copy of a place      -> state(place)
      &place / &mut place           -> state(place)      (references are transparent)
      aggregate                     -> component selected by proj, else domain.agg_rule
      call                          -> domain.call_rule, else the callee's summary (workspace fn),
                                       else BAD
      argument                      -> domain.type_rule(type, proj)
  fn summary(path, proj)           =  state(_0, proj) of the body, greatest fixed point over recursion

States are (ok: bool, reason: str).  ok=True means "the good state holds on all reaching
definitions"."""
from . import mir

GOOD = (True, "", frozenset())


def cond_of(r):
    return r[2] if len(r) > 2 else frozenset()


def merge(results):
    """all must be ok; conditions (argument indices that must themselves be good) are united"""
    c = frozenset()
    for r in results:
        if not r[0]:
            return r
        c |= cond_of(r)
    return (True, "", c)


class Domain:
    name = "?"

    def type_rule(self, ty, proj):
        """True/False/None for a value of static type `ty` viewed through `proj`"""
        return None

    def call_rule(self, ts, ctx, path, fref, args, proj, term):
        """(ok, reason) or None (= fall back to the callee summary)"""
        return None

    def agg_rule(self, ts, ctx, rv, proj, bb=None):
        return None

    def const_rule(self, c, proj):
        return None

    def place_rule(self, ts, ctx, place, proj):
        return None

    def cond_arg(self, ty, proj):
        """may the state of an argument of this type be left as a condition of the fn summary?"""
        return False


class Ctx:
    def __init__(self, fn):
        self.fn = fn
        self.body = fn["mir"]
        self.du = mir.defuse_of(self.body)
        self.path = fn["p"]


UNWRAPS = {
    "core::option::Option::<T>::unwrap": ("as:Some", ".0"),
    "core::option::Option::<T>::expect": ("as:Some", ".0"),
    "core::option::Option::<T>::unwrap_unchecked": ("as:Some", ".0"),
    "core::result::Result::<T, E>::unwrap": ("as:Ok", ".0"),
    "core::result::Result::<T, E>::expect": ("as:Ok", ".0"),
}
IDENT = {
    "<T as core::convert::Into<U>>::into", "<T as core::convert::From<T>>::from",
    "core::mem::take", "core::mem::replace", "<T as core::borrow::Borrow<T>>::borrow",
    "core::mem::ManuallyDrop::<T>::new", "core::mem::manually_drop::ManuallyDrop::<T>::new",
}


class TS:
    def __init__(self, P, domain, max_depth=40):
        self.P = P
        self.dom = domain
        self.summaries = {}
        self.in_progress = set()
        self.ctxs = {}
        self.fn_by_path = {}
        for f in P.fns():
            self.fn_by_path.setdefault(f["p"], f)
        self.max_depth = max_depth

    def ctx(self, fn):
        k = fn["d"]
        c = self.ctxs.get(k)
        if c is None:
            c = Ctx(fn)
            self.ctxs[k] = c
        return c

    # ---- summaries --------------------------------------------------------------------------
    def summary(self, path, proj):
        key = (path, proj)
        if key in self.summaries:
            return self.summaries[key]
        fn = self.fn_by_path.get(path)
        if fn is None:
            return (False, "no body for " + path)
        if key in self.in_progress:
            return GOOD  # coinductive assumption inside a recursion cycle
        self.in_progress.add(key)
        try:
            r = self.local(self.ctx(fn), 0, proj, 0, set())
        finally:
            self.in_progress.discard(key)
        self.summaries[key] = r
        return r

    # ---- evaluation --------------------------------------------------------------------------
    def operand(self, ctx, op, proj=(), depth=0, seen=None):
        seen = set() if seen is None else seen
        c = op.get("c")
        if c is not None:
            r = self.dom.const_rule(c, proj)
            if r is not None:
                return r
            return (False, "constant %s" % c.get("s"))
        p = op.get("cp") or op.get("mv")
        return self.place(ctx, p, proj, depth, seen)

    def _proj_names(self, place):
        out = []
        for e in place.get("p", []):
            k = e["k"]
            if k == "deref":
                out.append("*")
            elif k == "f":
                out.append("." + e["n"])
            elif k == "dc":
                out.append("as:" + e["n"])
            else:
                out.append("[]")
        return out

    def place(self, ctx, place, proj, depth, seen):
        r = self.dom.place_rule(self, ctx, place, proj)
        if r is not None:
            return r
        names = self._proj_names(place)
        # type-directed shortcut at every prefix of the projection
        ty = ctx.body["locals"][place["l"]]["ty"]
        elems = place.get("p", [])
        tys = [ty]
        for e in elems:
            if e["k"] == "deref":
                t = tys[-1]
                if t.startswith("&"):
                    t = t[1:].lstrip()
                    if t.startswith("mut "):
                        t = t[4:]
                    if t.startswith("'"):
                        t = t.split(" ", 1)[1] if " " in t else t
                elif t.startswith("*const ") or t.startswith("*mut "):
                    t = t.split(" ", 1)[1]
                elif t.startswith("alloc::boxed::Box<"):
                    t = t[len("alloc::boxed::Box<"):-1]
                tys.append(t)
            elif e["k"] == "f":
                tys.append(e["ty"])
            else:
                tys.append(tys[-1] if e["k"] == "dc" else "?")
        for i in range(len(tys) - 1, -1, -1):
            rest = tuple(n for n in names[i:] if n != "*") + tuple(proj)
            tr = self.dom.type_rule(tys[i], rest)
            if tr is True:
                return GOOD
            if tr is False:
                return (False, "value of type %s viewed through %s" % (tys[i], "".join(rest) or "(whole)"))
        full = tuple(n for n in names if n != "*") + tuple(proj)
        return self.local(ctx, place["l"], full, depth + 1, seen)

    def local(self, ctx, l, proj, depth, seen):
        if depth > self.max_depth:
            return (False, "analysis depth exceeded")
        key = (l, proj)
        if key in seen:
            return GOOD
        seen = seen | {key}
        body = ctx.body
        ty = body["locals"][l]["ty"]
        tr = self.dom.type_rule(ty, proj)
        if tr is True:
            return GOOD
        if tr is False:
            return (False, "value of type %s viewed through %s" % (ty, "".join(proj) or "(whole)"))
        defs = ctx.du.defs.get(l, [])
        if 1 <= l <= body["argc"] and not [d for d in defs if d[1] == 't' or not d[2]["p"].get("p")]:
            if ctx.fn["kind"] == "Closure" and l == 1:
                return (False, "closure environment")
            if self.dom.cond_arg(ty, proj):
                return (True, "", frozenset([l]))
            return (False, "argument %d of type %s" % (l, ty))
        if not defs:
            return (False, "local _%d has no definition" % l)
        results = []
        for (bb, idx, node) in defs:
            if idx == 't':
                results.append(self.call(ctx, node, proj, depth, seen, bb))
            elif node["k"] == "as":
                lhs = [n for n in self._proj_names(node["p"]) if n != "*"]
                if lhs:
                    # partial definition  l.f = rv
                    if tuple(proj[:len(lhs)]) == tuple(lhs):
                        results.append(self.rvalue(ctx, node["rv"], tuple(proj[len(lhs):]), depth, seen, bb))
                    elif tuple(lhs[:len(proj)]) == tuple(proj):
                        # writes a sub-component of what we look at: be conservative
                        results.append(self.rvalue(ctx, node["rv"], (), depth, seen) if False else (False, "component %s of _%d written separately" % ("".join(lhs), l)))
                    else:
                        continue
                else:
                    results.append(self.rvalue(ctx, node["rv"], proj, depth, seen, bb))
            else:
                results.append((False, "set-discriminant"))
        if not results:
            return (False, "no definition of _%d matches %s" % (l, "".join(proj)))
        return merge(results)

    def rvalue(self, ctx, rv, proj, depth, seen, bb=None):
        k = rv["k"]
        if k == "use":
            return self.operand(ctx, rv["a"], proj, depth + 1, seen)
        if k in ("ref", "rawptr"):
            return self.place(ctx, rv["p"], proj, depth + 1, seen)
        if k == "agg":
            r = self.dom.agg_rule(self, ctx, rv, proj, bb)
            if r is not None:
                return r
            ak = rv["ak"]
            if proj:
                p0 = proj[0]
                rest = proj[1:]
                if ak == "adt" and p0.startswith("as:"):
                    if p0[3:] != rv.get("vn"):
                        return GOOD   # other variant: this definition does not flow here
                    if not rest:
                        return (False, "whole variant")
                    p0, rest = rest[0], rest[1:]
                if p0.startswith("."):
                    name = p0[1:]
                    if ak == "tuple" or ak == "closure":
                        i = int(name) if name.isdigit() else None
                    else:
                        names = rv.get("fn", [])
                        i = names.index(name) if name in names else None
                    if i is not None and i < len(rv["ops"]):
                        return self.operand(ctx, rv["ops"][i], tuple(rest), depth + 1, seen)
            return (False, "aggregate %s viewed through %s" % (rv.get("adt") or ak, "".join(proj)))
        if k == "cast":
            if rv["ck"] in ("transmute", "ptr2ptr") or "Unsize" in rv["ck"] or "PointerCoercion" in rv["ck"]:
                return self.operand(ctx, rv["a"], proj, depth + 1, seen)
            return (False, "cast " + rv["ck"])
        return (False, "rvalue " + k)

    def call(self, ctx, term, proj, depth, seen, bb=None):
        f = mir.callee(term)
        if f is None:
            return (False, "indirect call")
        path = f.get("rp") or f["p"]
        ctx.cur_bb = bb
        r = self.dom.call_rule(self, ctx, path, f, term["a"], proj, term)
        if r is not None:
            return r
        if path in UNWRAPS:
            return self.operand(ctx, term["a"][0], UNWRAPS[path] + tuple(proj), depth + 1, seen)
        if path in IDENT or path.endswith("as core::clone::Clone>::clone") and False:
            return self.operand(ctx, term["a"][0], proj, depth + 1, seen)
        if "r" in f and path in self.fn_by_path and f.get("rk", "item") == "item":
            r = self.summary(path, tuple(proj))
            if r[0] and cond_of(r):
                # conditional summary: the listed arguments must be good at this call site
                rs = []
                for ai in sorted(cond_of(r)):
                    if ai - 1 < len(term["a"]):
                        rs.append(self.operand(ctx, term["a"][ai - 1], (), depth + 1, seen))
                    else:
                        rs.append((False, "conditional summary of %s on a missing argument" % path))
                return merge(rs)
            return r
        return (False, "call of %s" % path)
