"""C10 — rounding to integers / fewer digits: the two public rounding primitives' decision tables,
the mode each float rounding method uses, and the rational ceil/floor/round/trunc tables.
Not decided: digit splitting, the smaller_than_one shortcut's precision, with_precision arithmetic."""
from fractions import Fraction
import math

from . import mir, sym, guards, fdt, fdt_tables
from .fdt import Big, Adt, Closure, ordering, sign_of
from .fdt_tables import base_summaries, CONSTS, MODES, oracle_round, rounding_of, _v, _cmp
from .mir import span_loc
from .c17b import strip_bb

PROP = "C10"
CONFIGS = {"quick": ["dbg", "rel"], "thorough": ["dbg", "rel", "feat", "w32", "nostd"]}
LEVEL = ("Exhaustive finite decision tables: (R10.1) Round::round_fract and Round::round_ratio, evaluated for each of "
         "the six modes over (integer class) x (fraction sign, magnitude vs 1/2, zero) domains, return NoOp/AddOne/SubOne "
         "exactly as the mode's definition prescribes (oracle: exact rationals); the per-mode round_low_part tables "
         "are shared with C03; (R10.2) FBig::floor/ceil/round call round_fract instantiated with Down/Up/HalfAway and "
         "their smaller-than-one shortcuts return the right constant per sign; (R10.3) the rational "
         "ceil/floor/round/trunc/fract/split_at_point bodies agree with exact rational arithmetic on a domain "
         "covering every sign / half / integer case. Digit splitting and precision bookkeeping are not decided.")
TRUSTED = ["rustc MIR", "leaf summaries in rules/fdt_tables.py and rules/c10.py (div_rem truncates toward zero, shl, cmp, log2 bounds as exact logs)",
           "exact rational oracle"]


def _mode_fn(P, mode, name):
    return next((f for f in P.fns("dashu_float") if f["p"] == "<dashu_float::round::mode::%s as dashu_float::round::Round>::%s" % (mode, name)), None)


def _summaries():
    S = base_summaries()
    S["dashu_int::ibig::IBig::into_parts"] = lambda ev, a, fr: (sign_of(_v(a[0])), Big(abs(_v(a[0])), "UBig"))
    S["*Shl<i32> for dashu_int::ubig::UBig>::shl"] = lambda ev, a, fr: Big(_v(a[0]) << a[1], "UBig")
    S["*Shl<usize> for dashu_int::ubig::UBig>::shl"] = lambda ev, a, fr: Big(_v(a[0]) << a[1], "UBig")
    S["*From<dashu_int::ubig::UBig> for dashu_int::ibig::IBig>::from"] = lambda ev, a, fr: Big(_v(a[0]))
    S["<T as core::convert::Into<U>>::into"] = lambda ev, a, fr: a[0]
    S["*Neg for dashu_int::ibig::IBig>::neg"] = lambda ev, a, fr: Big(-_v(a[0]))
    S["*Neg for dashu_int::ubig::UBig>::neg"] = lambda ev, a, fr: Big(-_v(a[0]))
    S["*Ord for dashu_int::ibig::IBig>::cmp"] = lambda ev, a, fr: ordering(_cmp(_v(a[0]), _v(a[1])))
    S["*Ord for dashu_int::ubig::UBig>::cmp"] = lambda ev, a, fr: ordering(_cmp(_v(a[0]), _v(a[1])))
    S["*AbsOrd for dashu_int::ibig::IBig>::abs_cmp"] = lambda ev, a, fr: ordering(_cmp(abs(_v(a[0])), abs(_v(a[1]))))
    S["dashu_int::ubig::UBig::from_word"] = lambda ev, a, fr: Big(a[0], "UBig")
    S["*impl dashu_int::ubig::UBig>::pow"] = lambda ev, a, fr: Big(_v(a[0]) ** a[1], "UBig")
    S["dashu_int::pow::<impl dashu_int::ubig::UBig>::pow"] = lambda ev, a, fr: Big(_v(a[0]) ** a[1], "UBig")
    S["*UnsignedAbs for dashu_int::ibig::IBig>::unsigned_abs"] = lambda ev, a, fr: Big(abs(_v(a[0])), "UBig")
    S["*PartialOrd for dashu_int::ubig::UBig>::lt"] = lambda ev, a, fr: int(_v(a[0]) < _v(a[1]))

    def log2b(ev, a, fr):
        x = _v(a[0]) if not isinstance(a[0], int) else a[0]
        l = math.log2(x)
        return (l - 1e-4, l + 1e-4)
    S["*EstimatedLog2 for dashu_int::ubig::UBig>::log2_bounds"] = log2b
    S["*EstimatedLog2 for u64>::log2_bounds"] = log2b
    S["*EstimatedLog2 for u32>::log2_bounds"] = log2b
    S["<dashu_base::sign::Sign as core::ops::arith::Mul>::mul"] = lambda ev, a, fr: Adt("dashu_base::sign::Sign", "Positive" if a[0].variant == a[1].variant else "Negative", (), 0 if a[0].variant == a[1].variant else 1)
    return S


from . import polarity  # noqa: E402


def run(res, programs, tier):
    fdt_tables.r03_1(res, programs, "R10.1a")
    res.rule("R10.1", "Round::round_fract / round_ratio (trait defaults), instantiated with each of the six modes, return the adjustment prescribed by the definition for every sign / half / zero case of the fraction")
    res.rule("R10.2", "FBig::floor / ceil / round use round_fract::<Down / Up / HalfAway>; their smaller-than-one shortcuts return the constant the definition names per sign")
    res.rule("R10.2b", "mode-generic rounding functions (FBig::to_int, repr_round*, repr_round_sum, repr_div, sqrt) take the Rounding of every Inexact result from a call on their mode R, never from a constant")
    res.rule("R10.3", "rational Repr::{ceil, floor, round, trunc} equal exact rational rounding on a domain covering every sign x {integer, < 1/2, = 1/2, > 1/2} case")
    for P in programs:
        if "dashu_float" in P.units:
            _r10_1(res, P, P.name)
            _r10_2(res, P, P.name)
            _r10_2b(res, P, P.name)
        if "dashu_ratio" in P.units:
            _r10_3(res, P, P.name)
        if "dashu_float" in P.units:
            from . import pow2base
            pow2base.rule(res, P, P.name, "R10.8")
        if "dashu_float" in P.units and "dashu_ratio" in P.units and P.role == "main":
            polarity.rule(res, P, P.name, "R10.4")
            from . import halftest
            halftest.rule(res, P, P.name, "R10.5")
        if "dashu_float" in P.units:
            _r10_6(res, P, P.name)
            _r10_7(res, P, P.name)


def _dispatch_for(P, mode):
    def d(path, fr):
        if path == "dashu_float::round::Round::round_low_part":
            return _mode_fn(P, mode, "round_low_part")
        return None
    return d


def _r10_1(res, P, cfgname):
    f_fract = next((f for f in P.fns("dashu_float") if f["p"] == "dashu_float::round::Round::round_fract"), None)
    f_ratio = next((f for f in P.fns("dashu_float") if f["p"] == "dashu_float::round::Round::round_ratio"), None)
    if f_fract is None or f_ratio is None:
        res.anchor("R10.1", cfgname, "Round::round_fract / round_ratio default bodies")
        return
    S = _summaries()
    consts = dict(CONSTS)
    consts["param:B"] = 10
    ints = (-3, -2, 0, 2, 3)
    for mode in MODES:
        disp = _dispatch_for(P, mode)
        # ---- round_ratio: integer + num/den, |num| < |den|
        for integer in ints:
            for den in (4, -4):
                for num in (-3, -2, -1, 0, 1, 2, 3):
                    cell = (integer, num, den)
                    r = fdt.tabulate(P, f_ratio, [(cell, [Big(integer), Big(num), Big(den)])], S, consts, dispatch=disp)[cell]
                    x = Fraction(integer) + Fraction(num, den)
                    want = rounding_of(oracle_round(mode, x) - integer)
                    key = "round_ratio<%s>(%d + %d/%d)" % (mode, integer, num, den)
                    _judge(res, "R10.1", cfgname, key, r, want, f_ratio)
        # ---- round_fract: integer + fract / 10^1
        for integer in ints:
            for fract in (-7, -5, -2, 0, 2, 5, 7):
                cell = (integer, fract)
                r = fdt.tabulate(P, f_fract, [(cell, [Big(integer), Big(fract), 1])], S, consts, dispatch=disp)[cell]
                x = Fraction(integer) + Fraction(fract, 10)
                want = rounding_of(oracle_round(mode, x) - integer)
                key = "round_fract<%s>(%d + %d/10)" % (mode, integer, fract)
                _judge(res, "R10.1", cfgname, key, r, want, f_fract)


def _judge(res, rid, cfgname, key, r, want, fn):
    if isinstance(r, tuple) and r and r[0] == "undecided":
        res.anchor(rid, cfgname, key + ": evaluator undecided (%s)" % r[1][:140])
    elif isinstance(r, tuple) and r and r[0] == "panic":
        res.fail(rid, cfgname, key, "%s panics (%s); the definition requires %r" % (key, r[1], want), span_loc(fn["sp"]))
    elif r == want:
        res.ok(rid, cfgname, key)
    else:
        res.fail(rid, cfgname, key, "%s returns %r, the definition requires %r" % (key, r, want), span_loc(fn["sp"]))


def _r10_2(res, P, cfgname):
    want = {"floor": "Down", "ceil": "Up", "round": "HalfAway"}
    short = {"floor": {"Positive": "ZERO", "Negative": "NEG_ONE"}, "ceil": {"Positive": "ONE", "Negative": "ZERO"}}
    for name, mode in want.items():
        f = next((g for g in P.fns("dashu_float") if g["p"] == "dashu_float::round_ops::<impl dashu_float::fbig::FBig<R, B>>::" + name), None)
        if f is None:
            res.anchor("R10.2", cfgname, "fn FBig::" + name)
            continue
        calls = []
        for bb, t, fr in mir.iter_calls(f["mir"]):
            if fr and fr["p"] == "dashu_float::round::Round::round_fract":
                calls.append(fr.get("g", ["?"])[0])
        key = "FBig::%s uses round_fract::<%s>" % (name, mode)
        if calls == ["dashu_float::round::mode::" + mode]:
            res.ok("R10.2", cfgname, key, sample=dict(function=f["p"], mode=calls[0]))
        else:
            res.fail("R10.2", cfgname, key, "FBig::%s must round the fractional part with mode %s exactly once, found %s" % (name, mode, calls), span_loc(f["sp"]))
        if name in short:
            S = sym.Sym(f)
            cfg = mir.cfg_of(f["mir"])
            got = {}
            for i, j, s in mir.iter_stmts(f["mir"]):
                if s["k"] == "as" and s["p"]["l"] == 0 and not s["p"].get("p") and s["rv"]["k"] == "use":
                    c = s["rv"]["a"].get("c")
                    if c and str(c.get("s", "")).rsplit("::", 1)[-1] in ("ZERO", "ONE", "NEG_ONE"):
                        for cc in guards.constraints_at(S, cfg, i):
                            if cc[0] == 'unary' and cc[1][0] == 'discr' and cc[1][1][0] == 'call' and cc[1][1][1].endswith("::sign"):
                                for v, nm in ((0, "Positive"), (1, "Negative")):
                                    try:
                                        if cc[2](v) and not cc[2](1 - v):
                                            got[nm] = str(c["s"]).rsplit("::", 1)[-1]
                                    except Exception:
                                        pass
            key = "FBig::%s smaller-than-one shortcut" % name
            if got == short[name]:
                res.ok("R10.2", cfgname, key, sample=dict(function=f["p"], table=got))
            else:
                res.fail("R10.2", cfgname, key, "FBig::%s returns %s for |x| < 1 by sign, the definition requires %s" % (name, got, short[name]), span_loc(f["sp"]))


MODE_ROUNDERS = [
    "dashu_float::convert::<impl dashu_float::fbig::FBig<R, B>>::to_int",
    "dashu_float::repr::Context::<R>::repr_round", "dashu_float::repr::Context::<R>::repr_round_ref",
    "dashu_float::add::<impl dashu_float::repr::Context<R>>::repr_round_sum",
    "dashu_float::div::<impl dashu_float::repr::Context<R>>::repr_div",
    "dashu_float::root::<impl dashu_float::repr::Context<R>>::sqrt",
]


def _r10_2b(res, P, cfgname):
    """every Inexact(value, rounding) produced by a mode-generic rounding function takes its
    Rounding from a call on the mode R (round_fract / round_ratio / round_low_part), never a constant"""
    for path in MODE_ROUNDERS:
        f = next((g for g in P.fns("dashu_float") if g["p"] == path), None)
        if f is None:
            res.anchor("R10.2b", cfgname, "fn " + path)
            continue
        S = sym.Sym(f)
        n = 0
        bad = None
        for i, j, s in mir.iter_stmts(f["mir"]):
            if s["k"] == "as" and s["rv"]["k"] == "agg" and s["rv"].get("adt") == "dashu_base::approx::Approximation" and s["rv"]["vn"] == "Inexact":
                n += 1
                r = S.operand(s["rv"]["ops"][1])
                ok = any(isinstance(x, tuple) and x[0] == 'call' and x[1].startswith("dashu_float::round::Round::round_") for x in sym.subterms(r))
                if not ok:
                    bad = (sym.term_str(r, 80), span_loc(s["sp"]))
        key = "%s: Rounding of every Inexact comes from the mode" % path.rsplit("::", 1)[1]
        if n == 0:
            res.anchor("R10.2b", cfgname, "Inexact(..) in " + path)
        elif bad:
            res.fail("R10.2b", cfgname, key, "%s returns Inexact(.., %s): a mode-generic rounding function must take the adjustment from its rounding mode R on every inexact path" % (path, bad[0]), bad[1])
        else:
            res.ok("R10.2b", cfgname, key, sample=dict(function=path, inexact_sites=n))


def _r10_3(res, P, cfgname):
    S = _summaries()

    class Rat:
        def __init__(self, n, d):
            self.fields = {"numerator": Big(n), "denominator": Big(d, "UBig")}

    # rational Repr is accessed by field: give the evaluator an Adt with named-index fields
    def rat(n, d):
        return Adt("dashu_ratio::repr::Repr", "Repr", [Big(n), Big(d, "UBig")], 0)

    def div_rem(ev, a, fr):
        n, d = _v(a[0]), _v(a[1])
        q = abs(n) // abs(d)
        if (n < 0) != (d < 0):
            q = -q
        return (Big(q), Big(n - q * d))
    S["*DivRem<&'r dashu_int::ubig::UBig> for &'l dashu_int::ibig::IBig>::div_rem"] = div_rem
    S["*Div<&'r dashu_int::ubig::UBig> for &'l dashu_int::ibig::IBig>::div"] = lambda ev, a, fr: div_rem(ev, a, fr)[0]
    S["*Rem<&'r dashu_int::ubig::UBig> for &'l dashu_int::ibig::IBig>::rem"] = lambda ev, a, fr: div_rem(ev, a, fr)[1]
    S["*PartialOrd for dashu_int::ibig::IBig>::gt"] = lambda ev, a, fr: int(_v(a[0]) > _v(a[1]))
    S["*PartialOrd for dashu_int::ibig::IBig>::lt"] = lambda ev, a, fr: int(_v(a[0]) < _v(a[1]))
    S["core::cmp::PartialOrd::gt"] = lambda ev, a, fr: int(_v(a[0]) > _v(a[1]))
    S["core::cmp::PartialOrd::lt"] = lambda ev, a, fr: int(_v(a[0]) < _v(a[1]))
    S["core::cmp::PartialOrd::ge"] = lambda ev, a, fr: int(_v(a[0]) >= _v(a[1]))
    S["*PartialOrd for dashu_int::ubig::UBig>::ge"] = lambda ev, a, fr: int(_v(a[0]) >= _v(a[1]))

    def add_assign(ev, a, fr):
        a[0].v = _v(a[0]) + _v(a[1])
        return ()

    def sub_assign(ev, a, fr):
        a[0].v = _v(a[0]) - _v(a[1])
        return ()
    S["*AddAssign for dashu_int::ibig::IBig>::add_assign"] = add_assign
    S["*SubAssign for dashu_int::ibig::IBig>::sub_assign"] = sub_assign
    oracle = {"ceil": lambda x: math.ceil(x), "floor": lambda x: math.floor(x), "trunc": lambda x: math.trunc(x),
              "round": lambda x: oracle_round("HalfAway", x)}
    for name, orc in oracle.items():
        f = next((g for g in P.fns("dashu_ratio") if g["p"] == "dashu_ratio::round::<impl dashu_ratio::repr::Repr>::" + name), None)
        if f is None:
            res.anchor("R10.3", cfgname, "fn Repr::" + name)
            continue
        for n in range(-7, 8):
            d = 4
            cell = (n, d)
            r = fdt.tabulate(P, f, [(cell, [rat(n, d)])], S, CONSTS)[cell]
            want = Big(orc(Fraction(n, d)))
            key = "Repr::%s(%d/%d)" % (name, n, d)
            _judge(res, "R10.3", cfgname, key, r, want, f)


# ---------------------------------------------------------------------------------------------
# R10.6  FBig::with_precision wraps its value with the *new* context.  The value must have been rounded by
# that context (`new_context.repr_round(..)`) on every path, except where it provably fits already: the
# old precision is not larger than the new one AND the old precision is limited (0 means unlimited and is
# larger than every other precision) or the value is infinite.  Found F29.
def _r10_6(res, P, cfgname):
    from . import guards
    res.rule("R10.6", "FBig::with_precision: the value wrapped with the new context was rounded by it, or sits on a path that established old precision <= new precision and (old precision limited or value infinite)")
    path = "dashu_float::convert::<impl dashu_float::fbig::FBig<R, B>>::with_precision"
    f = next((g for g in P.fns("dashu_float") if g["p"] == path), None)
    if f is None:
        res.anchor("R10.6", cfgname, "fn " + path)
        return
    b = f["mir"]
    S = sym.Sym(f)
    cfg = mir.cfg_of(b)
    du = mir.defuse_of(b)
    # the Rounded<Repr> handed to Approximation::map
    val = None
    for bb, t, fr in mir.iter_calls(b):
        cp = fr and (fr.get("rp") or fr["p"])
        if cp and cp.endswith("Approximation::<T, E>::map") and t["d"]["l"] == 0:
            val = mir.op_local(t["a"][0])
    if val is None:
        res.anchor("R10.6", cfgname, "the `.map(|v| Self::new(v, new_context))` call of with_precision")
        return
    # follow plain moves
    seen = set()
    while val not in seen:
        seen.add(val)
        d = du.single_def(val)
        if d and d[1] != "t" and d[2]["rv"]["k"] == "use" and mir.op_local(d[2]["rv"]["a"]) is not None:
            val = mir.op_local(d[2]["rv"]["a"])
    le_targets, lim_targets = set(), set()
    for a, bto, fact in S.edge_facts():
        for c in guards.constraints(fact):
            if c[0] == "rel":
                _, op, A, B = c
                ta, tb = sym.term_str(sym.strip_casts(A), 80), sym.term_str(sym.strip_casts(B), 80)
                if ("context.precision" in ta and tb == "arg2" and op in ("Le", "Lt", "Eq")) or (ta == "arg2" and "context.precision" in tb and op in ("Ge", "Gt", "Eq")):
                    le_targets.add(bto)
            elif c[0] == "bool" and isinstance(c[1], tuple) and c[1][0] == "call" and c[2] is True:
                if c[1][1].endswith(("::is_limited", "::is_infinite")) and "arg1" in sym.term_str(c[1], 120):
                    lim_targets.add(bto)
    n = 0
    for (bb, idx, node) in du.defs.get(val, []):
        if bb not in cfg.reachable():
            continue
        n += 1
        if idx == "t":
            cp = mir.callee_path(node) or ""
            recv = sym.term_str(S.operand(node["a"][0]), 120) if node["a"] else ""
            key = "with_precision value from " + cp.rsplit("::", 1)[-1]
            if cp.endswith(("::repr_round", "::repr_round_ref")) and "Context::<R>::new(arg2)" in recv:
                res.ok("R10.6", cfgname, key, sample=dict(function=path, rounded_by="the new context"))
            else:
                res.fail("R10.6", cfgname, key, "with_precision wraps the result of %s (receiver %s) with the new context: not a rounding by the new context" % (cp, recv), mir.span_loc(node["sp"]))
        else:
            key = "with_precision value unrounded (Exact)"
            ok_le = bool(le_targets) and cfg.must_pass(le_targets, 0, {bb})
            ok_lim = bool(lim_targets) and cfg.must_pass(lim_targets, 0, {bb})
            if ok_le and ok_lim:
                res.ok("R10.6", cfgname, key, sample=dict(function=path, edges="old precision <= new; old precision limited or value infinite"))
            else:
                res.fail("R10.6", cfgname, key, "with_precision passes the value on unrounded on a path that does not establish %s: a value with unlimited precision (0) keeps all its digits under the new, smaller precision" % (
                    "old precision <= new precision" if not ok_le else "that the old precision is limited (non-zero) or the value infinite"), mir.span_loc(node.get("sp", f["sp"])))
    res.floor("R10.6", cfgname, n, 2, "definitions of the value wrapped by with_precision")


# ---------------------------------------------------------------------------------------------
# R10.7  for |x| < 1 the helper split_at_point_internal returns the *precision of the context* in place of
# the number of fractional digits (that is what fract() wants).  A rounding decision must not be taken from
# that count: 99 * 10^-4 at precision 2 would be compared with 10^2 and rounded up to 1 (F31).  Every
# function that feeds the helper's result to round_fract answers the |x| < 1 case itself first, i.e. its call
# of the helper is dominated by the `smaller_than_one() == false` edge.
def _r10_7(res, P, cfgname):
    from . import guards
    res.rule("R10.7", "a function that hands split_at_point_internal's digit count to round_fract reaches that helper only on the smaller_than_one() == false edge (for |x| < 1 the helper returns the context precision, not a digit count)")
    n = 0
    for f in P.fns("dashu_float"):
        b = f.get("mir")
        if not b:
            continue
        calls = [(bb, (fr.get("rp") or fr["p"]), t) for bb, t, fr in mir.iter_calls(b) if fr]
        splits = [(bb, t) for bb, c, t in calls if c.endswith("::split_at_point_internal")]
        if not splits or not any(c.endswith("::round_fract") for _b, c, _t in calls):
            continue
        S = sym.Sym(f)
        cfg = mir.cfg_of(b)
        for bb, t in splits:
            n += 1
            ok = False
            for c in guards.constraints_at(S, cfg, bb):
                if c[0] == "bool" and c[2] is False and isinstance(c[1], tuple) and c[1][0] == "call" and c[1][1].endswith("::smaller_than_one"):
                    ok = True
            key = f["p"] + " split_at_point_internal"
            if ok:
                res.ok("R10.7", cfgname, key, sample=dict(function=f["p"], guard="smaller_than_one() == false"))
            else:
                res.fail("R10.7", cfgname, key, "%s passes the digit count of split_at_point_internal to round_fract without first answering the |x| < 1 case: for such x the helper returns the context precision, and a value like 0.0099 at 2 digits is rounded to 1" % f["p"], span_loc(t["sp"]))
    res.floor("R10.7", cfgname, n, 4, "callers that round with the digit count of split_at_point_internal")


LEVEL = LEVEL + ' Also (R10.2b) every Inexact adjustment of the mode-generic rounding functions comes from a call on the mode R, (R10.4) the log2-estimate half test and all bound-returning functions are polarity-correct, (R10.5) half tests compare a remainder with its own divisor.'
TECHNIQUE = 'finite-domain tabulation of round_fract / round_ratio / rational rounding bodies for all six modes against a definition oracle; call-shape rules; bound-polarity type system; half-test pairing'
LEVEL = LEVEL + ' Also (R10.6) with_precision rounds with the new context unless the old precision is limited and not larger.'
LEVEL = LEVEL + ' (R10.7) the tiny-value shortcut: split_at_point_internal is reached from rounding callers only where smaller_than_one() is false, so the digit count of the discarded part is never under-estimated.'
LEVEL = LEVEL + ' (R10.8) inside a `B.is_power_of_two()` branch of the float / rational code every shift amount depends on B.trailing_zeros(): a digit count is never used as a bit count for bases 4, 8, 16, ...'
TECHNIQUE = TECHNIQUE + '; shift-amount dependence inside power-of-two-base branches'
