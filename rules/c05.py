"""C05 — equality, ordering and hashing follow the value: every producer yields the canonical
representation on which ==, Ord, Hash silently rely, and the three read the same projection.
Not decided: the numeric correctness of multi-word compare / float alignment arithmetic."""
from . import mir, sym, guards, typestate
from .mir import span_loc
from .c17b import strip_bb, strip_ref_ty

PROP = "C05"
CONFIGS = {"quick": ["dbg", "rel", "feat"], "thorough": ["dbg", "rel", "feat", "w32", "nostd"]}
LEVEL = ("Static obligations on all paths: canonical-form typestates of the three representations "
         "(integer: pop_zeros + len switch + shrink before the heap transmute, no other producer of heap "
         "values; float: Repr struct literals only in reviewed normalising functions, in-place exponent "
         "writes only on a not-zero edge, digits <= precision at every FBig construction; rational: only "
         "reduced Repr flows into RBig), agreement of the projections read by Eq/Hash, absence of Hash "
         "where values are not canonical, and the comparison dispatch tables. The numeric order inside "
         "the word-compare / alignment code is not decided.")
TRUSTED = ["rustc MIR and callee resolution", "reviewed constructor tables in rules/c05.py and rules/c17.py",
           "C17's R17.2/R17.3 for the integer constructor sets (re-run here)"]

FREPR = "dashu_float::repr::Repr"
FBIG = "dashu_float::fbig::FBig"
IREPR = "dashu_int::repr::Repr"

# R05.4a: functions allowed to build a float Repr by struct literal, with the reason it is normalised
FLOAT_LITERALS = {
    "dashu_float::repr::Repr::<B>::zero": "constant 0 x B^0",
    "dashu_float::repr::Repr::<B>::one": "constant",
    "dashu_float::repr::Repr::<B>::neg_one": "constant",
    "dashu_float::repr::Repr::<B>::infinity": "constant (0, 1)",
    "dashu_float::repr::Repr::<B>::neg_infinity": "constant (0, -1)",
    "dashu_float::repr::Repr::<B>::new": "literal is passed to normalize() [checked]",
    "dashu_float::repr::Repr::<B>::normalize": "the normalising function itself",
    "dashu_float::repr::Repr::<B>::from_static_words": "guarded by assert!(!is_multiple_of_const(B)) [checked, release-surviving]",
    "dashu_float::fbig::FBig::<R, B>::from_parts_const": "const normalising loops precede the literal",
    "dashu_float::fbig::FBig::<R, B>::ulp": "significand ONE [checked]",
    "dashu_float::fbig::FBig::<R, B>::sub_ulp": "significand ONE [checked]",
    "dashu_float::sign::<impl dashu_float::fbig::FBig<R, B>>::signum": "significand = signum (unit) [checked]",
    "dashu_float::convert::<impl dashu_float::repr::Context<R>>::convert_base": "copies of an already normalised value (same base / infinity)",
    "<dashu_float::repr::Repr<B> as core::clone::Clone>::clone": "field-wise copy",
}
# in-place mutation of `.significand` (assignment or &mut): sign changes preserve normalisation
SIGNIF_WRITERS = {
    "dashu_float::sign::<impl core::ops::arith::Neg for dashu_float::repr::Repr<B>>::neg": "negation",
    "dashu_float::sign::<impl core::ops::arith::Neg for dashu_float::fbig::FBig<R, B>>::neg": "negation",
    "dashu_float::sign::<impl dashu_base::sign::Abs for dashu_float::fbig::FBig<R, B>>::abs": "abs",
    "dashu_float::sign::<impl core::ops::arith::Mul<dashu_base::sign::Sign> for dashu_float::fbig::FBig<R, B>>::mul": "*= Sign",
    "dashu_float::sign::<impl core::ops::arith::Mul<dashu_float::fbig::FBig<R, B>> for dashu_base::sign::Sign>::mul": "*= Sign",
    "dashu_float::sign::<impl core::ops::arith::MulAssign<dashu_base::sign::Sign> for dashu_float::fbig::FBig<R, B>>::mul_assign": "*= Sign",
    "dashu_float::add::add_val_val": "*= Sign", "dashu_float::add::add_val_ref": "*= Sign",
    "dashu_float::add::add_ref_val": "*= Sign", "dashu_float::add::add_ref_ref": "*= Sign",
    "dashu_float::add::<impl dashu_float::repr::Context<R>>::repr_add_large_small": "working copy shifted in place, then consumed by Repr::new [checked: Repr::new post-dominates]",
    "<dashu_float::round::mode::HalfAway as dashu_float::round::ErrorBounds>::error_bounds": "half-ulp: constant (B+1)/2 < B",
    "<dashu_float::round::mode::HalfEven as dashu_float::round::ErrorBounds>::error_bounds": "half-ulp: constant (B+1)/2 < B",
    "<dashu_float::repr::Repr<B> as core::clone::Clone>::clone_from": "copies a valid source",
    "dashu_float::third_party::zeroize::<impl zeroize::Zeroize for dashu_float::repr::Repr<B>>::zeroize": "zeroize sets the canonical zero",
}
# exponent writers that need no zero test, with reason
EXP_WRITERS_NO_GUARD = {
    "<dashu_float::repr::Repr<B> as core::clone::Clone>::clone_from": "copies the exponent of a valid source together with its significand",
    "<dashu_float::round::mode::HalfAway as dashu_float::round::ErrorBounds>::error_bounds": "on ulp(), whose significand is ONE (never zero)",
    "<dashu_float::round::mode::HalfEven as dashu_float::round::ErrorBounds>::error_bounds": "on ulp(), whose significand is ONE (never zero)",
    "dashu_float::third_party::zeroize::<impl zeroize::Zeroize for dashu_float::repr::Repr<B>>::zeroize": "zeroize sets significand and exponent to 0 together",
}
FBIG_LITERALS = {
    "<dashu_float::fbig::FBig<R, B> as core::clone::Clone>::clone": "field-wise copy",
    "dashu_float::convert::<impl dashu_float::fbig::FBig<R, B>>::with_rounding": "same repr and precision, other mode type",
    "dashu_float::fbig::FBig::<R, B>::from_repr": "documented precondition, debug-asserted; callers are judged by R03.5",
    "dashu_float::fbig::FBig::<R, B>::from_repr_const": "unlimited precision (0)",
    "dashu_float::fbig::FBig::<R, B>::new": "crate-private: callers are judged by R03.5 / this table",
    "dashu_float::parse::<impl dashu_float::fbig::FBig<R, B>>::from_str_native": "precision = number of parsed digits (>= digits of the normalised value)",
}


def run(res, programs, tier):
    res.rule("R05.1", "Repr::from_buffer: pop_zeros() on every path before the len switch; arms 0/1/2 build inline values; the default arm calls shrink_to_fit before the transmute")
    res.rule("R05.2", "Eq and Hash of integer Repr read exactly as_sign_slice(); UBig/IBig/RBig Eq+Hash read the same fields; Relaxed, rational Repr and FBig implement no Hash")
    res.rule("R05.4a", "float Repr struct literals only in the reviewed normalising functions (side conditions checked); .significand mutated in place only by sign changes / reviewed sites")
    res.rule("R05.4b", "every in-place write to .exponent of an existing float Repr is on the not-zero edge of a test of the same value (infinities are zero significand + non-zero exponent)")
    res.rule("R05.6", "FBig struct literals only in reviewed constructors; deserialisers must validate digits <= precision")
    res.rule("R05.3b", "the set of shortcut conditions of the float comparison kernel is closed under exchanging lhs and rhs (necessary for cmp(a,b) == reverse(cmp(b,a)))")
    for P in programs:
        cfgname = P.name
        if "dashu_int" in P.units:
            _r05_1(res, P, cfgname)
            _r05_2(res, P, cfgname)
        if "dashu_float" in P.units:
            _r05_4(res, P, cfgname)
            _r05_6(res, P, cfgname)
            _r05_3b(res, P, cfgname)
    # R05.5 = R04.1 (structural == / Hash of RBig rely on it), R05.1 relies on R17.2/R17.3
    from . import c04, c17
    res.rule("R04.1", "(shared with C04) every RBig(..) is built from a reduced Repr on all reaching definitions")
    for P in programs:
        if "dashu_ratio" in P.units:
            c04._r04_1(res, P, P.name)
    res.rule("R17.1", "(shared with C17) unsafe-operation inventory")
    res.rule("R17.2", "(shared with C17) union/transmute guards: heap form only for len >= 3")
    res.rule("R17.2c", "(shared with C17)")
    res.rule("R17.4", "(shared with C17)")
    res.rule("R17.3", "(shared with C17) constructor / writer sets of integer Repr and Buffer")
    res.rule("R17.7", "(shared with C17) Repr::clone_from: the final sign fix-up reads the current sign of self (a.clone_from(&b) must equal b)")
    res.rule("R17.8", "(shared with C17) Repr::clone_from frees or reuses the destination buffer on every path")
    from . import c17b
    for P in programs:
        if "dashu_int" in P.units:
            P = c17.storage_view(P)
            c17._inventory(res, P, P.name)
            c17._r17_3(res, P, P.name)
            c17b._r17_8c(res, P, P.name)
            c17b._r17_11(res, P, P.name)     # zeroize (feature build) resets to the canonical zero
    from . import fdt_tables
    fdt_tables.r05_3(res, programs)
    # R05.3c: the log2-estimate shortcuts of the comparison kernels are conservative (shared polarity rule)
    from . import polarity
    for P in programs:
        if "dashu_float" in P.units and "dashu_ratio" in P.units and P.role == "main":
            polarity.rule(res, P, P.name, "R05.3c")


def _find(P, path, crate=None):
    for f in P.fns(crate):
        if f["p"] == path:
            return f
    return None


def _r05_1(res, P, cfgname):
    fn = _find(P, "dashu_int::repr::Repr::from_buffer", "dashu_int")
    if fn is None:
        res.anchor("R05.1", cfgname, "fn Repr::from_buffer")
        return
    S = sym.Sym(fn)
    cfg = mir.cfg_of(fn["mir"])
    pop = [bb for bb, t, f in mir.iter_calls(fn["mir"]) if f and (f.get("rp") or f["p"]) == "dashu_int::buffer::Buffer::pop_zeros"]
    lens = [bb for bb, t, f in mir.iter_calls(fn["mir"]) if f and (f.get("rp") or f["p"]) == "dashu_int::buffer::Buffer::len"]
    key = "from_buffer: pop_zeros dominates len()"
    if pop and lens and all(any(cfg.dominates(p, l) for p in pop) for l in lens) and cfg.must_pass(pop):
        res.ok("R05.1", cfgname, key, sample=dict(function=fn["p"], shape="pop_zeros() dominates every len() and every return"))
    else:
        res.fail("R05.1", cfgname, key, "Repr::from_buffer does not strip leading zero words before dispatching on the length", span_loc(fn["sp"]))
    # arms
    arms = {}
    for a, b, fact in S.edge_facts():
        if fact[1][0] == 'call' and fact[1][1] == "dashu_int::buffer::Buffer::len":
            arms[fact[2] if not isinstance(fact[2], tuple) else 'default'] = b
    want = {0: "dashu_int::repr::Repr::from_word", 1: "dashu_int::repr::Repr::from_word", 2: "dashu_int::repr::Repr::from_dword"}
    for v, ctor in want.items():
        key = "from_buffer arm %d -> %s" % (v, ctor.rsplit("::", 1)[1])
        b = arms.get(v)
        ok = False
        if b is not None:
            region = cfg.reach_from(b)
            for bb, t, f in mir.iter_calls(fn["mir"]):
                if bb in region and f and (f.get("rp") or f["p"]) == ctor:
                    # and the arm must not reach the transmute
                    ok = True
            for i, j, s in mir.iter_stmts(fn["mir"]):
                if i in region and s["k"] == "as" and s["rv"]["k"] == "cast" and s["rv"]["ck"] == "transmute" and s["rv"]["ty"] == IREPR:
                    ok = False
        if ok:
            res.ok("R05.1", cfgname, key)
        else:
            res.fail("R05.1", cfgname, key, "Repr::from_buffer: the len == %d arm must build an inline value with %s" % (v, ctor), span_loc(fn["sp"]))
    b = arms.get('default')
    key = "from_buffer default arm: shrink_to_fit then transmute"
    ok = False
    if b is not None:
        region = cfg.reach_from(b)
        shr = [bb for bb, t, f in mir.iter_calls(fn["mir"]) if bb in region and f and (f.get("rp") or f["p"]) == "dashu_int::buffer::Buffer::shrink_to_fit"]
        tr = [i for i, j, s in mir.iter_stmts(fn["mir"]) if i in region and s["k"] == "as" and s["rv"]["k"] == "cast" and s["rv"]["ck"] == "transmute" and s["rv"]["ty"] == IREPR]
        ok = bool(shr) and bool(tr) and all(any(cfg.dominates(s_, t_) for s_ in shr) for t_ in tr)
    if ok:
        res.ok("R05.1", cfgname, key, sample=dict(function=fn["p"], shape="default arm: shrink_to_fit() dominates transmute (capacity within the compactness bound)"))
    else:
        res.fail("R05.1", cfgname, key, "Repr::from_buffer: the heap arm must call shrink_to_fit() before the transmute", span_loc(fn["sp"]))


def _swap_term(t):
    """mirror image of a term under lhs <-> rhs: arg1 <-> arg2, and the components of the
    (lhs_prec, rhs_prec) tuple in arg3"""
    if not isinstance(t, tuple):
        return t
    if t == ('arg', 1):
        return ('arg', 2)
    if t == ('arg', 2):
        return ('arg', 1)
    if t and t[0] == 'place' and t[1] == ('arg', 3):
        projs = tuple({'.0': '.1', '.1': '.0'}.get(p, p) if i == len(t[2]) - 1 else p for i, p in enumerate(t[2]))
        return ('place', t[1], projs)
    return tuple(_swap_term(x) if isinstance(x, tuple) else x for x in t)


def _r05_3b(res, P, cfgname):
    from .c17b import norm_rel
    fn = _find(P, "dashu_float::cmp::repr_cmp_same_base", "dashu_float")
    if fn is None:
        res.anchor("R05.3b", cfgname, "fn repr_cmp_same_base")
        return
    S = sym.Sym(fn)
    conds = set()
    for a, b, fact in S.edge_facts():
        for c in guards.constraints(fact):
            if c[0] == 'rel':
                op, A, B = norm_rel(c[1], strip_bb(sym.strip_casts(c[2])), strip_bb(sym.strip_casts(c[3])))
                conds.add((op, A, B))
                # the negation is implied by the other edge of the same switch
                neg = {'Lt': 'Le', 'Le': 'Lt', 'Eq': 'Ne', 'Ne': 'Eq'}[op]
                conds.add((neg, B, A) if op in ('Lt', 'Le') else (neg, A, B))
    n = 0
    missing = []
    for (op, A, B) in sorted(conds, key=repr):
        txt = sym.term_str(A, 300) + sym.term_str(B, 300)
        if "arg1" not in txt and "arg2" not in txt and "arg3" not in txt:
            continue
        n += 1
        m = (op, _swap_term(A), _swap_term(B))
        m2 = (op, m[2], m[1]) if op in ('Eq', 'Ne') else None
        if m not in conds and (m2 is None or m2 not in conds):
            missing.append("%s %s %s" % (sym.term_str(A, 80), op, sym.term_str(B, 80)))
    key = "repr_cmp_same_base: conditions closed under lhs<->rhs"
    if n < 6:
        res.anchor("R05.3b", cfgname, "relational conditions in repr_cmp_same_base (found %d)" % n)
    elif missing:
        res.fail("R05.3b", cfgname, key, "float comparison is not mirror-symmetric: the shortcut condition `%s` has no counterpart with lhs and rhs exchanged, so cmp(a, b) and cmp(b, a) can disagree" % missing[0], span_loc(fn["sp"]))
    else:
        res.ok("R05.3b", cfgname, key, sample=dict(function=fn["p"], conditions=n))


def _callees(fn):
    return [(f.get("rp") or f["p"]) for bb, t, f in mir.iter_calls(fn["mir"]) if f]


def _r05_2(res, P, cfgname):
    eq = _find(P, "<dashu_int::repr::Repr as core::cmp::PartialEq>::eq", "dashu_int")
    hs = _find(P, "<dashu_int::repr::Repr as core::hash::Hash>::hash", "dashu_int")
    if eq is None or hs is None:
        res.anchor("R05.2", cfgname, "PartialEq/Hash for integer Repr")
    else:
        ce, ch = _callees(eq), _callees(hs)
        n_e = ce.count("dashu_int::repr::Repr::as_sign_slice")
        n_h = ch.count("dashu_int::repr::Repr::as_sign_slice")
        # neither may read fields of Repr directly
        direct = []
        for f in (eq, hs):
            for i, j, s in mir.iter_stmts(f["mir"]):
                def chk(p):
                    for e in p.get("p", []):
                        if e.get("k") == "f" and e.get("of") == IREPR:
                            direct.append((f["p"], e["n"]))
                mir.walk_places(s, chk)
        key = "integer Repr: eq and hash both go through as_sign_slice only"
        if n_e == 2 and n_h == 1 and not direct:
            res.ok("R05.2", cfgname, key, sample=dict(eq=ce, hash=ch))
        else:
            res.fail("R05.2", cfgname, key, "Eq/Hash of integer Repr no longer read the same projection (as_sign_slice): eq calls %s, hash calls %s, direct field reads %s" % (ce, ch, direct), span_loc(hs["sp"]))
        # hash must hash both components of the tuple: sign and slice
        hashed = [c for c in ch if c.endswith("::hash") or "hash::Hash" in c]
        key = "integer Repr::hash hashes sign and words"
        if len(hashed) >= 2:
            res.ok("R05.2", cfgname, key)
        else:
            res.fail("R05.2", cfgname, key, "Hash for Repr must feed both the sign and the word slice to the hasher (calls: %s)" % ch, span_loc(hs["sp"]))
    # impl table: who implements Hash / PartialEq
    impls = {}
    for i in P.impls:
        t = i.get("trait")
        if t:
            impls.setdefault(i["self"], set()).add(t)
    expect_hash = {"dashu_int::ubig::UBig": True, "dashu_int::ibig::IBig": True, "dashu_ratio::rbig::RBig": True,
                   "dashu_ratio::rbig::Relaxed": False, "dashu_ratio::repr::Repr": False}
    for ty, want in expect_hash.items():
        if ty.startswith("dashu_ratio") and "dashu_ratio" not in P.units:
            continue
        has = "core::hash::Hash" in impls.get(ty, set())
        key = "Hash impl for %s: %s" % (ty, "present" if want else "absent")
        if has == want:
            res.ok("R05.2", cfgname, key)
        else:
            res.fail("R05.2", cfgname, key, "%s %s core::hash::Hash (%s)" % (ty, "must implement" if want else "must not implement", "its values are canonical" if want else "its values are not canonical, equal values would hash differently"))
    if "dashu_float" in P.units:
        bad = [s for s, ts in impls.items() if s.startswith(("dashu_float::fbig::FBig<", "dashu_float::repr::Repr<")) and "core::hash::Hash" in ts]
        key = "no Hash impl for FBig / float Repr"
        if not bad:
            res.ok("R05.2", cfgname, key)
        else:
            res.fail("R05.2", cfgname, key, "float types must not implement Hash (equal values of different precision): %s" % bad)
    # RBig eq / hash read numerator and denominator, both
    if "dashu_ratio" in P.units:
        for tr, name in (("core::cmp::PartialEq", "eq"), ("core::hash::Hash", "hash")):
            f = _find(P, "<dashu_ratio::rbig::RBig as %s>::%s" % (tr, name), "dashu_ratio")
            key = "RBig::%s reads numerator and denominator" % name
            if f is None:
                # derived impl prints differently; search by trait
                cands = [g for g in P.fns("dashu_ratio") if g.get("trait", "").startswith(tr) and g.get("self_ty") == "dashu_ratio::rbig::RBig" and g["name"] == name]
                f = cands[0] if cands else None
            if f is None:
                res.anchor("R05.2", cfgname, "RBig::" + name)
                continue
            fields = set()
            todo = [f]
            seen = set()
            while todo:
                g = todo.pop()
                if g["d"] in seen:
                    continue
                seen.add(g["d"])
                for i, j, s in mir.iter_stmts(g["mir"]):
                    def chk(p):
                        for e in p.get("p", []):
                            if e.get("k") == "f" and e.get("of") == "dashu_ratio::repr::Repr":
                                fields.add(e["n"])
                    mir.walk_places(s, chk)
                for bb, t, fr in mir.iter_calls(g["mir"]):
                    def chk2(p):
                        for e in p.get("p", []):
                            if e.get("k") == "f" and e.get("of") == "dashu_ratio::repr::Repr":
                                fields.add(e["n"])
                    mir.walk_places(t["a"], chk2)
                    cp = fr and fr.get("r")
                    if cp and cp in P.fn and P.fn[cp]["crate"] == "dashu_ratio":
                        todo.append(P.fn[cp])
            if fields == {"numerator", "denominator"}:
                res.ok("R05.2", cfgname, key, sample=dict(function=f["p"], fields=sorted(fields)))
            else:
                res.fail("R05.2", cfgname, key, "RBig::%s reads fields %s of its Repr, expected exactly numerator and denominator" % (name, sorted(fields)), span_loc(f["sp"]))


def _facts_nonzero(S, cfg, bb, root_str):
    """is there a dominating fact that the float Repr rooted at `root_str` is not zero?"""
    for c in guards.constraints_at(S, cfg, bb):
        if c[0] == 'bool' and c[2] is False and c[1][0] == 'call' and c[1][1].endswith("::is_zero"):
            arg = sym.term_str(strip_bb(c[1][2][0]), 300).lstrip("&")
            if arg.startswith(root_str) or root_str.startswith(arg.rstrip("*")):
                return sym.term_str(c[1], 120)
    return None


def _r05_4(res, P, cfgname):
    n_lit = 0
    n_exp = 0
    for fn in P.fns():
        if fn["crate"] not in ("dashu_float", "dashu_ratio", "dashu"):
            continue
        path = fn["p"]
        S = None
        cfg = None
        for i, j, s in mir.iter_stmts(fn["mir"]):
            if s["k"] != "as":
                continue
            rv = s["rv"]
            # ---- (a) literals
            if rv["k"] == "agg" and rv.get("adt") == FREPR:
                n_lit += 1
                key = "float Repr literal in " + path
                if path not in FLOAT_LITERALS:
                    res.fail("R05.4a", cfgname, key, "float Repr is built by a struct literal in %s, outside the reviewed normalising constructors (use Repr::new)" % path, span_loc(s["sp"]))
                    continue
                S = S or sym.Sym(fn)
                cfg = cfg or mir.cfg_of(fn["mir"])
                ok, why = _literal_side_condition(P, fn, S, cfg, i, s, path)
                if ok:
                    res.ok("R05.4a", cfgname, key, sample=dict(function=path, reason=FLOAT_LITERALS[path], checked=why))
                else:
                    res.fail("R05.4a", cfgname, key, "float Repr literal in %s: side condition failed: %s" % (path, why), span_loc(s["sp"]))
            # ---- significand mutation
            mut = None
            for e in s["p"].get("p", []):
                if e.get("k") == "f" and e.get("of") == FREPR and e["n"] == "significand":
                    mut = "write"
            if rv["k"] in ("ref", "rawptr") and str(rv.get("m", "")).lower().startswith("mut"):
                for e in rv["p"].get("p", []):
                    if e.get("k") == "f" and e.get("of") == FREPR and e["n"] == "significand":
                        mut = "&mut"
            if mut:
                key = "%s .significand in %s" % (mut, path)
                if path in SIGNIF_WRITERS:
                    res.ok("R05.4a", cfgname, key)
                else:
                    res.fail("R05.4a", cfgname, key, "the significand of a float Repr is mutated in place in %s (normalisation could be lost); reviewed writers only change the sign" % path, span_loc(s["sp"]))
            # ---- (b) exponent writes
            wr = False
            projs = s["p"].get("p", [])
            for idx, e in enumerate(projs):
                if e.get("k") == "f" and e.get("of") == FREPR and e["n"] == "exponent":
                    wr = idx
            if wr is not False:
                n_exp += 1
                S = S or sym.Sym(fn)
                cfg = cfg or mir.cfg_of(fn["mir"])
                base = dict(s["p"])
                base["p"] = projs[:wr]
                root = sym.term_str(strip_bb(S.place(base) if base["p"] else S.local(base["l"])), 300)
                ordinal = sum(1 for (ii, jj, ss) in mir.iter_stmts(fn["mir"]) if (ii, jj) < (i, j) and ss["k"] == "as" and any(e.get("k") == "f" and e.get("of") == FREPR and e["n"] == "exponent" for e in ss["p"].get("p", [])))
                key = "exponent write #%d in %s" % (ordinal, path)
                if path in EXP_WRITERS_NO_GUARD:
                    res.ok("R05.4b", cfgname, key, nontrivial=False)
                    continue
                g = _facts_nonzero(S, cfg, i, root)
                if g:
                    res.ok("R05.4b", cfgname, key, sample=dict(function=path, write=root + ".exponent", guard="!" + g))
                else:
                    res.fail("R05.4b", cfgname, key,
                             "%s writes `%s.exponent` without being on the not-zero edge of a test of that value: a zero would become an infinity (0 x B^e, e != 0) and the shift is applied on every path" % (path, root),
                             span_loc(s["sp"]))
    res.floor("R05.4a", cfgname, n_lit, 13, "float Repr literals")
    res.floor("R05.4b", cfgname, n_exp, 8, "in-place exponent writes")


def _literal_side_condition(P, fn, S, cfg, bb, s, path):
    rv = s["rv"]
    if path.endswith("::new"):
        # the literal must flow into normalize()
        for b2, t, f in mir.iter_calls(fn["mir"]):
            if f and (f.get("rp") or f["p"]).endswith("Repr::<B>::normalize") and cfg.must_pass([b2]):
                return True, "normalize() on every return path"
        return False, "Repr::new no longer passes its literal through normalize()"
    if path.endswith("::from_static_words"):
        for c in guards.constraints_at(S, cfg, bb):
            if c[0] == 'bool' and c[2] is False and c[1][0] == 'call' and "is_multiple_of_const" in c[1][1]:
                return True, "assert!(!is_multiple_of_const(B)) dominates"
        return False, "no release-surviving assert that the significand is not a multiple of the base"
    if path.endswith(("::ulp", "::sub_ulp")):
        sg = S.operand(rv["ops"][0])
        if sg[0] == 'const' and str(sg[1]).endswith("IBig::ONE"):
            return True, "significand is IBig::ONE"
        return False, "significand is %s, expected the constant ONE" % sym.term_str(sg, 80)
    if path.endswith("::signum"):
        sg = strip_bb(S.operand(rv["ops"][0]))
        ex = S.operand(rv["ops"][1])
        cands = [sg]
        if sg[0] == 'var':
            cands = []
            for (b2, idx, node) in S.du.defs.get(sg[1], []):
                if idx == 't':
                    cands.append(('call', mir.callee_path(node) or '?', ()))
                else:
                    cands.append(strip_bb(S.rvalue(node["rv"])))
        good = all((c[0] == 'call' and c[1].endswith("::signum")) or (c[0] == 'const' and str(c[1]).endswith(("IBig::ONE", "IBig::NEG_ONE"))) for c in cands)
        if good and cands and ex[0] == 'const' and ex[1] == 0:
            return True, "significand is a unit (signum / ONE / NEG_ONE) on every definition, exponent 0"
        return False, "significand definitions %s, exponent %s" % ([sym.term_str(c, 60) for c in cands], sym.term_str(ex, 30))
    if path.endswith(("::zero", "::one", "::neg_one", "::infinity", "::neg_infinity")):
        sg = S.operand(rv["ops"][0])
        ex = S.operand(rv["ops"][1])
        want = {"zero": ("ZERO", 0), "one": ("ONE", 0), "neg_one": ("NEG_ONE", 0), "infinity": ("ZERO", 1), "neg_infinity": ("ZERO", -1)}[path.rsplit("::", 1)[1]]
        if sg[0] == 'const' and str(sg[1]).endswith("IBig::" + want[0]) and ex[0] == 'const' and ex[1] == want[1]:
            return True, "constants (%s, %d)" % want
        return False, "expected (%s, %d), got (%s, %s)" % (want[0], want[1], sym.term_str(sg, 60), sym.term_str(ex, 30))
    if path.endswith("::convert_base"):
        # only field-for-field copies of the (normalised) operand into the same-valued Repr of another
        # const parameter: an operand that is *computed* (exponent * n, significand * k) is a value in a
        # different base and needs Repr::new to be normalised there
        sg = strip_bb(S.operand(rv["ops"][0]))
        ex = strip_bb(S.operand(rv["ops"][1]))
        def field_of_arg(t, name):
            return isinstance(t, tuple) and t[0] == 'place' and t[1] == ('arg', 2) and tuple(t[2]) == ("." + name,)
        if field_of_arg(sg, "significand") and field_of_arg(ex, "exponent"):
            return True, "field-for-field copy of the operand"
        return False, "operands (%s, %s) are not the operand's own fields: a value re-expressed in another base must go through Repr::new (normalisation)" % (sym.term_str(sg, 60), sym.term_str(ex, 60))
    return True, "reviewed"


def _r05_6(res, P, cfgname):
    n = 0
    for fn in P.fns():
        if fn["crate"] not in ("dashu_float", "dashu_ratio", "dashu"):
            continue
        for i, j, s in mir.iter_stmts(fn["mir"]):
            if s["k"] == "as" and s["rv"]["k"] == "agg" and s["rv"].get("adt") == FBIG:
                n += 1
                key = "FBig literal in " + fn["p"]
                if fn["p"] in FBIG_LITERALS:
                    res.ok("R05.6", cfgname, key, sample=dict(function=fn["p"], reason=FBIG_LITERALS[fn["p"]]))
                    continue
                # anywhere else the precision must be validated against the digits: a dominating
                # comparison involving digits()/precision, or construction through a rounding ctor
                S = sym.Sym(fn)
                cfg = mir.cfg_of(fn["mir"])
                # validated: every path to the literal uses an edge that establishes
                # digits <= precision, or precision == 0 (unlimited)
                cut = set()
                for a, b, fact in S.edge_facts():
                    for c in guards.constraints(fact):
                        if c[0] != 'rel':
                            continue
                        A, B_ = sym.term_str(c[2], 300), sym.term_str(c[3], 300)
                        op = c[1]
                        if "digits" in A and op in ('Le', 'Lt') and "digits" not in B_:
                            cut.add((a, b))
                        if "digits" in B_ and op in ('Ge', 'Gt') and "digits" not in A:
                            cut.add((a, b))
                        if op == 'Eq' and ((c[3][0] == 'const' and c[3][1] == 0) or (c[2][0] == 'const' and c[2][1] == 0)) and "digits" not in A + B_:
                            cut.add((a, b))
                seen = {0}
                st = [0]
                while st:
                    x = st.pop()
                    for y in cfg.succ[x]:
                        if (x, y) in cut or y in seen:
                            continue
                        seen.add(y)
                        st.append(y)
                ok = bool(cut) and i not in seen
                if ok:
                    res.ok("R05.6", cfgname, key + "|validated")
                else:
                    res.fail("R05.6", cfgname, key, "FBig is built by a struct literal in %s with a precision that is not validated against the number of digits (the comparison shortcut relies on digits <= precision)" % fn["p"], span_loc(s["sp"]))
    res.floor("R05.6", cfgname, n, 6, "FBig literals")
    fr = _find(P, "dashu_float::fbig::FBig::<R, B>::from_repr", "dashu_float")
    if fr is None:
        res.anchor("R05.6", cfgname, "fn FBig::from_repr")


LEVEL = LEVEL + ' Also (R05.3b) the shortcut conditions of the float comparison kernel are closed under operand exchange, (R05.3c) every log2-estimate shortcut of the comparison kernels compares a lower bound with an upper bound, (R17.7/R17.8, shared) Repr::clone_from fixes the sign from the current capacity and never leaks; compile-fail witnesses (thorough): no Hash for FBig / Relaxed, no base mixing.'
TECHNIQUE = 'typestate of canonical forms over constructor / writer sets; projection agreement of Eq / Hash impls; finite comparison tables (FDT); mirror-symmetry of shortcut conditions; bound-polarity type system; compile-fail witnesses'
LEVEL = LEVEL + ' Also (R05.4a) the literals of convert_base are field copies of the operand; (R17.7, shared) Zeroize resets to the canonical zero.'
