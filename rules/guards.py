"""Interpretation of edge facts as constraints on integer-valued terms and relational facts."""
from . import sym

_CMP = {
    'Eq': lambda a, b: a == b, 'Ne': lambda a, b: a != b, 'Lt': lambda a, b: a < b,
    'Le': lambda a, b: a <= b, 'Gt': lambda a, b: a > b, 'Ge': lambda a, b: a >= b,
}
_SWAP = {'Eq': 'Eq', 'Ne': 'Ne', 'Lt': 'Gt', 'Le': 'Ge', 'Gt': 'Lt', 'Ge': 'Le'}
_NEG = {'Eq': 'Ne', 'Ne': 'Eq', 'Lt': 'Ge', 'Le': 'Gt', 'Gt': 'Le', 'Ge': 'Lt'}


def _allowed(val):
    if isinstance(val, tuple):
        if val[0] == 'not':
            s = set(val[1])
            return lambda v: v not in s
        if val[0] == 'oneof':
            s = set(val[1])
            return lambda v: v in s
    return lambda v: v == val


def truth(val):
    """truth value implied for a boolean term by a switch value, or None"""
    a = _allowed(val)
    t, f = a(1), a(0)
    if t and not f:
        return True
    if f and not t:
        return False
    return None


def constraints(fact):
    """yield ('unary', X, pred) and ('rel', op, A, B) facts implied by an edge fact"""
    _, term, val = fact
    out = []
    _expand(term, val, out, 0)
    return out


def _expand(term, val, out, depth):
    if depth > 8 or not isinstance(term, tuple):
        return
    k = term[0]
    if k == 'cast':
        _expand(term[2], val, out, depth + 1)
        return
    if k == 'un' and term[1] == 'Not':
        b = truth(val)
        if b is not None:
            _expand(term[2], 0 if b else 1, out, depth + 1)
        return
    if k == 'bin' and term[1] in _CMP:
        b = truth(val)
        if b is None:
            return
        op = term[1] if b else _NEG[term[1]]
        A, B = term[2], term[3]
        out.append(('rel', op, A, B))
        if B[0] == 'const' and isinstance(B[1], int):
            c = B[1]
            out.append(('unary', A, (lambda x, c=c, op=op: _CMP[op](x, c))))
        if A[0] == 'const' and isinstance(A[1], int):
            c = A[1]
            out.append(('unary', B, (lambda x, c=c, op=op: _CMP[_SWAP[op]](x, c))))
        return
    if k == 'bin' and term[1] in ('BitAnd', 'BitOr', 'BitXor'):
        # boolean connectives on bools: a & b true => both true ; a | b false => both false
        b = truth(val)
        if b is True and term[1] == 'BitAnd':
            _expand(term[2], 1, out, depth + 1)
            _expand(term[3], 1, out, depth + 1)
        elif b is False and term[1] == 'BitOr':
            _expand(term[2], 0, out, depth + 1)
            _expand(term[3], 0, out, depth + 1)
    out.append(('unary', term, _allowed(val)))
    # a call returning bool whose value is known: record as predicate fact
    b = truth(val)
    if b is not None:
        out.append(('bool', term, b))


def constraints_at(symfn, cfg, bb):
    out = []
    for f in sym.facts_at(symfn, cfg, bb):
        out.extend(constraints(f))
    return out
