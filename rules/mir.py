"""Shared analyses over exported MIR bodies: CFG, dominators, panic blocks, must-pass-through,
def-use chains and small symbolic terms. Pure Python, no execution of analysed code."""

from collections import defaultdict


# ---------------------------------------------------------------------------------------------
# operands / places
# ---------------------------------------------------------------------------------------------

def op_place(op):
    if op is None:
        return None
    return op.get("cp") or op.get("mv")


def op_const(op):
    return op.get("c") if op else None


def op_local(op):
    """local index if the operand is a bare local (no projection), else None"""
    p = op_place(op)
    if p is not None and not p.get("p"):
        return p["l"]
    return None


def place_local(p):
    return p["l"]


def place_is_local(p):
    return not p.get("p")


def const_int(c):
    """integer value of a scalar constant (signed according to its type), or None"""
    if c is None or "v" not in c:
        return None
    v = int(c["v"])
    ty = c.get("ty", "")
    if ty.startswith("i") and ty[1:].replace("size", "64").isdigit():
        bits = c["sz"] * 8
        if v >= 1 << (bits - 1):
            v -= 1 << bits
    return v


def callee(term):
    """fn-ref dict of a call terminator whose function operand is a constant fn item"""
    if term.get("k") not in ("call", "tailcall"):
        return None
    c = op_const(term["f"])
    if c is None:
        return None
    return c.get("fn")


def callee_id(term):
    """resolved def path of the callee if resolution succeeded, else the declared def path"""
    f = callee(term)
    if f is None:
        return None
    return f.get("r") or f["d"]


def callee_path(term):
    f = callee(term)
    if f is None:
        return None
    return f.get("rp") or f["p"]


def span_loc(sp):
    """'file:line' of the innermost location of an exported span string"""
    if not sp:
        return "?"
    head = sp.split("|", 1)[0]
    parts = head.split(":")
    if len(parts) >= 2:
        return parts[0] + ":" + parts[1]
    return head


def span_file(sp):
    return sp.split("|", 1)[0].split(":")[0] if sp else "?"


def span_macros(sp):
    """names of the macros in the expansion backtrace of a span (innermost first)"""
    if not sp or "|" not in sp:
        return []
    return [seg.split("@", 1)[0] for seg in sp.split("|")[1:]]


def span_outer(sp):
    """'file:line' of the outermost call site (where the user wrote the macro invocation)"""
    if not sp:
        return "?"
    segs = sp.split("|")
    if len(segs) == 1:
        return span_loc(sp)
    cs = segs[-1].split("@", 1)[1]
    parts = cs.split(":")
    return parts[0] + ":" + parts[1]


# ---------------------------------------------------------------------------------------------
# CFG
# ---------------------------------------------------------------------------------------------

def term_succs(t):
    """normal (non-unwind) successors of a terminator as (label, bb) pairs"""
    k = t["k"]
    if k == "goto":
        return [("goto", t["t"])]
    if k == "switch":
        out = [(v, b) for v, b in t["ts"]]
        out.append(("otherwise", t["o"]))
        return out
    if k == "call":
        return [("ret", t["t"])] if t["t"] is not None else []
    if k == "drop":
        return [("drop", t["t"])]
    if k == "assert":
        return [("ok", t["t"])]
    return []


def _const_locals(body):
    """locals assigned exactly once, by a scalar constant"""
    cnt = {}
    val = {}
    for bb in body["bbs"]:
        for st in bb["s"]:
            if st["k"] == "as":
                l = st["p"]["l"]
                cnt[l] = cnt.get(l, 0) + 1
                if not st["p"].get("p") and st["rv"]["k"] == "use":
                    c = op_const(st["rv"]["a"])
                    if c is not None and const_int(c) is not None:
                        val[l] = const_int(c)
        t = bb["t"]
        if t["k"] == "call":
            l = t["d"]["l"]
            cnt[l] = cnt.get(l, 0) + 2
    return {l: v for l, v in val.items() if cnt.get(l) == 1}


class CFG:
    def __init__(self, body):
        self.body = body
        bbs = body["bbs"]
        self.n = len(bbs)
        self.succ = [[] for _ in bbs]
        self.pred = [[] for _ in bbs]
        consts = _const_locals(body)
        self.pruned = 0
        for i, bb in enumerate(bbs):
            seen = set()
            succs = term_succs(bb["t"])
            t = bb["t"]
            if t["k"] == "switch":
                # constant switch (cfg!(debug_assertions), const generics are not folded): keep only
                # the feasible edge, so that debug-only code is unreachable in release facts
                cv = None
                c = op_const(t["d"])
                if c is not None:
                    cv = const_int(c)
                else:
                    l = op_local(t["d"])
                    if l is not None and l in consts:
                        cv = consts[l]
                if cv is not None:
                    hit = [(v, b) for v, b in t["ts"] if int(v) == cv]
                    succs = [hit[0]] if hit else [("otherwise", t["o"])]
                    self.pruned += 1
            for _lab, s in succs:
                if s not in seen:
                    seen.add(s)
                    self.succ[i].append(s)
                    self.pred[s].append(i)
        self.rets = [i for i, bb in enumerate(bbs) if bb["t"]["k"] == "ret"]
        self._can_return = None
        self._dom = None
        self._reach = None

    # blocks reachable from entry along normal edges
    def reachable(self):
        if self._reach is None:
            self._reach = self.reach_from(0)
        return self._reach

    def reach_from(self, src, avoid=()):
        avoid = set(avoid)
        if src in avoid:
            return set()
        seen = {src}
        st = [src]
        while st:
            b = st.pop()
            for s in self.succ[b]:
                if s not in seen and s not in avoid:
                    seen.add(s)
                    st.append(s)
        return seen

    def can_return(self):
        """blocks from which some Return is reachable"""
        if self._can_return is None:
            seen = set(self.rets)
            st = list(self.rets)
            while st:
                b = st.pop()
                for p in self.pred[b]:
                    if p not in seen:
                        seen.add(p)
                        st.append(p)
            self._can_return = seen
        return self._can_return

    def is_panic_block(self, b):
        return b not in self.can_return()

    def dominators(self):
        """dom[b] = set of blocks dominating b (as Python int bitsets)"""
        if self._dom is not None:
            return self._dom
        n = self.n
        reach = self.reachable()
        full = (1 << n) - 1
        dom = [full] * n
        dom[0] = 1
        # reverse post-order
        order = []
        seen = set()
        st = [(0, iter(self.succ[0]))]
        seen.add(0)
        while st:
            b, it = st[-1]
            adv = False
            for s in it:
                if s not in seen:
                    seen.add(s)
                    st.append((s, iter(self.succ[s])))
                    adv = True
                    break
            if not adv:
                order.append(b)
                st.pop()
        order.reverse()
        changed = True
        while changed:
            changed = False
            for b in order:
                if b == 0:
                    continue
                new = full
                for p in self.pred[b]:
                    if p in reach:
                        new &= dom[p]
                new |= 1 << b
                if new != dom[b]:
                    dom[b] = new
                    changed = True
        self._dom = dom
        return dom

    def dominates(self, a, b):
        return bool(self.dominators()[b] >> a & 1)

    def must_pass(self, blocks, src=0, targets=None):
        """True iff every path src -> (targets | Return) goes through one of `blocks`.
        Paths that end in panic blocks do not count."""
        targets = set(self.rets) if targets is None else set(targets)
        blocks = set(blocks)
        if src in blocks:
            return True
        r = self.reach_from(src, avoid=blocks)
        return not (r & targets)

    def back_edges(self):
        dom = self.dominators()
        out = []
        for b in self.reachable():
            for s in self.succ[b]:
                if dom[b] >> s & 1:
                    out.append((b, s))
        return out

    def natural_loop(self, tail, head):
        body = {head, tail}
        st = [tail]
        while st:
            b = st.pop()
            if b == head:
                continue
            for p in self.pred[b]:
                if p not in body:
                    body.add(p)
                    st.append(p)
        return body


_CFG_CACHE = {}


def cfg_of(fn_or_body):
    body = fn_or_body.get("mir", fn_or_body)
    k = id(body)
    c = _CFG_CACHE.get(k)
    if c is None or c.body is not body:
        c = CFG(body)
        _CFG_CACHE[k] = c
    return c


# ---------------------------------------------------------------------------------------------
# iteration helpers
# ---------------------------------------------------------------------------------------------

def iter_calls(body, reachable_only=True):
    """yield (bb index, terminator, fn-ref) for every call terminator"""
    r = cfg_of(body).reachable() if reachable_only else None
    for i, bb in enumerate(body["bbs"]):
        if bb.get("cu"):
            continue
        if r is not None and i not in r:
            continue
        t = bb["t"]
        if t["k"] in ("call", "tailcall"):
            yield i, t, callee(t)


def iter_stmts(body, reachable_only=True):
    r = cfg_of(body).reachable() if reachable_only else None
    for i, bb in enumerate(body["bbs"]):
        if bb.get("cu"):
            continue
        if r is not None and i not in r:
            continue
        for j, s in enumerate(bb["s"]):
            yield i, j, s


def walk_places(node, fn):
    """call fn(place, role) on every place inside an rvalue/operand/statement/terminator"""
    if isinstance(node, dict):
        if "l" in node and ("p" in node or len(node) == 1) and not ("k" in node):
            fn(node)
            return
        for k, v in node.items():
            if k in ("c",):
                continue
            walk_places(v, fn)
    elif isinstance(node, list):
        for e in node:
            walk_places(e, fn)


class DefUse:
    """definitions and uses of locals in a body"""

    def __init__(self, body):
        self.body = body
        self.defs = defaultdict(list)   # local -> [(bb, idx, node)]   idx = stmt index or 't'
        self.uses = defaultdict(list)   # local -> [(bb, idx, node)]
        for i, bb in enumerate(body["bbs"]):
            for j, s in enumerate(bb["s"]):
                if s["k"] == "as":
                    if any(e.get("k") == "deref" for e in s["p"].get("p", [])):
                        # a write through a pointer/reference uses the base local, it does not define it
                        self.uses[s["p"]["l"]].append((i, j, s))
                    else:
                        self.defs[s["p"]["l"]].append((i, j, s))
                    # projections through deref are uses of the base as well
                    self._uses_in(s["rv"], i, j, s)
                    if s["p"].get("p"):
                        self._proj_uses(s["p"], i, j, s)
                elif s["k"] == "setdiscr":
                    self.defs[s["p"]["l"]].append((i, j, s))
            t = bb["t"]
            if t["k"] == "call":
                self.defs[t["d"]["l"]].append((i, "t", t))
                self._uses_in(t["f"], i, "t", t)
                self._uses_in(t["a"], i, "t", t)
            elif t["k"] == "switch":
                self._uses_in(t["d"], i, "t", t)
            elif t["k"] == "assert":
                self._uses_in(t["c"], i, "t", t)
            elif t["k"] == "drop":
                self.uses[t["p"]["l"]].append((i, "t", t))

    def _proj_uses(self, place, i, j, node):
        for e in place.get("p", []):
            if e.get("k") == "idx":
                self.uses[e["l"]].append((i, j, node))

    def _uses_in(self, node, i, j, owner):
        def f(p):
            self.uses[p["l"]].append((i, j, owner))
            self._proj_uses(p, i, j, owner)
        walk_places(node, f)

    def single_def(self, l):
        d = self.defs.get(l, [])
        return d[0] if len(d) == 1 else None


_DU_CACHE = {}


def defuse_of(fn_or_body):
    body = fn_or_body.get("mir", fn_or_body)
    k = id(body)
    c = _DU_CACHE.get(k)
    if c is None or c.body is not body:
        c = DefUse(body)
        _DU_CACHE[k] = c
    return c


def backward_slice(body, start_locals, through_calls=True, max_steps=100000, control=False):
    """set of locals on which the given locals are data-dependent (flow-insensitive over defs),
    and the set of call terminators (bb index) met on the way.  With control=True the slice also
    follows control dependence: the discriminant of every switch that dominates a defining block
    and can bypass it (the definition happens only on some of its branches)."""
    du = defuse_of(body)
    seen = set()
    calls = set()
    st = list(start_locals)
    steps = 0
    cfg = cfg_of(body) if control else None
    ctrl_done = set()
    while st and steps < max_steps:
        steps += 1
        l = st.pop()
        if l in seen:
            continue
        seen.add(l)
        for (bb, idx, node) in du.defs.get(l, []):
            if control and bb not in ctrl_done:
                ctrl_done.add(bb)
                for sb, blk in enumerate(body["bbs"]):
                    t = blk["t"]
                    if t["k"] != "switch" or sb == bb or not cfg.dominates(sb, bb):
                        continue
                    succs = cfg.succ[sb]
                    if len(succs) < 2:
                        continue
                    reach_all = all(bb in cfg.reach_from(x) for x in succs)
                    if not reach_all:
                        walk_places(t["d"], lambda p: st.append(p["l"]))
            if idx == "t":
                calls.add(bb)
                if through_calls:
                    walk_places(node["a"], lambda p: st.append(p["l"]))
            elif node["k"] == "as":
                walk_places(node["rv"], lambda p: st.append(p["l"]))
    return seen, calls


def forward_slice(body, start_locals, max_steps=100000):
    """locals data-dependent on the given ones (flow-insensitive), and call bbs whose args use them"""
    du = defuse_of(body)
    seen = set()
    calls = set()
    st = list(start_locals)
    steps = 0
    while st and steps < max_steps:
        steps += 1
        l = st.pop()
        if l in seen:
            continue
        seen.add(l)
        for (bb, idx, node) in du.uses.get(l, []):
            if idx == "t":
                if node["k"] == "call":
                    calls.add(bb)
                    st.append(node["d"]["l"])
            elif node["k"] == "as":
                st.append(node["p"]["l"])
    return seen, calls


def local_name(body, l):
    for v in body.get("vars", []):
        if v["p"]["l"] == l and not v["p"].get("p"):
            return v["n"]
    return None


def arg_locals(body):
    return list(range(1, body["argc"] + 1))
