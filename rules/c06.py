"""C06 — conversions (narrow claim): infallible From only along value-set inclusions; no unguarded
lossy shift inside an exactness-promising TryFrom; TryFrom into primitives bottoms out in the
range-checked kernels.  Correct rounding of to_f32/to_f64/to_float is numeric: not decided."""
import re

from . import mir, sym, guards
from .mir import span_loc
from .c17b import strip_bb

PROP = "C06"
CONFIGS = {"quick": ["dbg", "feat"], "thorough": ["dbg", "rel", "feat", "w32", "nostd"]}
LEVEL = ("Static obligations (narrow): (R06.1) in the impl table an infallible `From<A> for B` between number types "
         "exists only where every value of A is a value of B; (R06.2) inside `TryFrom` bodies that promise "
         "exactness no right shift of the converted value happens without a dominating test of the shifted-out "
         "bits with an Err edge; (R06.3) every TryFrom into a primitive integer reaches the range-checked "
         "kernels (try_to_unsigned / try_to_signed / core TryFrom) and contains no bare `as` truncation of a "
         "DoubleWord on a path to Ok. The correctly-rounded lossy conversions (to_f32, to_f64, to_float, "
         "to_int) are numeric and not decided.")
TRUSTED = ["rustc's impl table and MIR", "the value-set lattice in rules/c06.py"]

PRIM_U = ["u8", "u16", "u32", "u64", "u128", "usize"]
PRIM_I = ["i8", "i16", "i32", "i64", "i128", "isize"]
NUM = {"dashu_int::ubig::UBig": "UBig", "dashu_int::ibig::IBig": "IBig", "dashu_float::fbig::FBig": "FBig",
       "dashu_float::repr::Repr": "FRepr", "dashu_ratio::rbig::RBig": "RBig", "dashu_ratio::rbig::Relaxed": "Relaxed",
       "dashu_ratio::repr::Repr": "RRepr"}


def cls(t):
    t = t.replace("&", "").strip()
    if t in PRIM_U:
        return "uN"
    if t in PRIM_I:
        return "iN"
    if t in ("f32", "f64"):
        return "fN"
    if t == "bool":
        return "bool"
    for k, v in NUM.items():
        if t.startswith(k):
            return v
    return None


# value-set inclusions: (A, B) such that every value of A is exactly a value of B
INCLUDED = {
    ("bool", "UBig"), ("bool", "IBig"),
    ("uN", "UBig"), ("uN", "IBig"), ("iN", "IBig"), ("UBig", "IBig"),
    ("uN", "FBig"), ("iN", "FBig"), ("UBig", "FBig"), ("IBig", "FBig"),       # unlimited / digit-count precision: exact
    ("uN", "FRepr"), ("UBig", "FRepr"), ("IBig", "FRepr"),
    ("uN", "RBig"), ("iN", "RBig"), ("UBig", "RBig"), ("IBig", "RBig"),
    ("uN", "Relaxed"), ("iN", "Relaxed"), ("UBig", "Relaxed"), ("IBig", "Relaxed"),
    ("uN", "RRepr"), ("iN", "RRepr"), ("UBig", "RRepr"), ("IBig", "RRepr"),
    # {false, true} = {0, 1} is contained in every number type
    ("bool", "FBig"), ("bool", "FRepr"), ("bool", "RBig"), ("bool", "Relaxed"), ("bool", "RRepr"),
    # RBig and Relaxed hold the same set of values (the rationals); they differ in the stored form only
    ("RBig", "Relaxed"), ("Relaxed", "RBig"),
}


def run(res, programs, tier):
    from . import halftest
    for P in programs:
        if "dashu_ratio" in P.units and "dashu_float" in P.units and P.role == "main":
            halftest.rule(res, P, P.name, "R06.5")
            _r06_6(res, P, P.name)
            _r06_7(res, P, P.name)
            _r06_9(res, P, P.name)
            exact_laundering(res, P, P.name, "R06.8")
            from . import pow2base
            pow2base.rule(res, P, P.name, "R10.8")      # shared with C10: RBig::to_float / comparisons with FBig scale digit counts
    res.rule("R06.1", "infallible From<A> for B between number types only along value-set inclusions (impl table)")
    res.rule("R06.2", "a right shift of the converted value inside a TryFrom body is dominated by a test of the shifted-out bits with an Err edge")
    res.rule("R06.4", "sibling agreement: f32/f64 FloatEncoding::{encode,decode} have the same structure; to_f32/to_f64 of large integers split at one position (kept bits, sticky range, exponent)")
    res.rule("R06.3", "TryFrom<big> for primitive integers reaches try_to_unsigned / try_to_signed (range-checked), never a bare `as` truncation")
    for P in programs:
        if P.role != "main":
            continue
        cfgname = P.name
        _r06_1(res, P, cfgname)
        _r06_2(res, P, cfgname)
        _r06_3(res, P, cfgname)
        _r06_4(res, P, cfgname)


def _r06_1(res, P, cfgname):
    n = 0
    seen = set()
    for i in P.impls:
        t = i.get("trait", "")
        m = re.match(r"core::convert::From<(.*)>$", t)
        if not m:
            continue
        a, b = cls(m.group(1)), cls(i["self"])
        if a is None or b is None or (a in ("uN", "iN", "fN", "bool") and b in ("uN", "iN", "fN", "bool")):
            continue
        if a == b:
            continue
        if (a, b) in seen:
            continue
        seen.add((a, b))
        n += 1
        key = "From<%s> for %s" % (a, b)
        if (a, b) in INCLUDED:
            res.ok("R06.1", cfgname, key, sample=dict(conversion=key, reason="value set of %s is contained in %s" % (a, b)))
        else:
            res.fail("R06.1", cfgname, key, "infallible `From<%s> for %s` exists although not every %s value is exactly representable as %s: the conversion rounds silently (must be TryFrom)" % (a, b, a, b), span_loc(i.get("sp", "")))
    res.floor("R06.1", cfgname, n, 15, "infallible conversions between number classes")


def _r06_2(res, P, cfgname):
    n = 0
    for f in P.fns():
        if f["crate"] == "dashu_macros" or not f.get("trait", "").startswith("core::convert::TryFrom<"):
            continue
        m = re.match(r"core::convert::TryFrom<(.*)>$", f["trait"])
        a, b = cls(m.group(1)), cls(f.get("self_ty", ""))
        if a is None or b is None or f.get("name") != "try_from":
            continue
        S = None
        cfg = None
        for bb, t, fr in mir.iter_calls(f["mir"]):
            cp = fr and (fr.get("rp") or fr["p"])
            if not cp or not cp.startswith("dashu_int::shift_ops::") or not (cp.endswith("::shr") or cp.endswith("::shr_assign")):
                continue
            n += 1
            S = S or sym.Sym(f)
            cfg = cfg or mir.cfg_of(f["mir"])
            ok = False
            for c in guards.constraints_at(S, cfg, bb):
                txt = sym.term_str(c[1], 300) if c[0] != 'rel' else sym.term_str(c[2], 300) + sym.term_str(c[3], 300)
                if any(k in txt for k in ("trailing_zeros", "are_low_bits_nonzero", "split_bits", "is_multiple_of", "is_power_of_two")):
                    ok = True
            if not ok:
                # the test may be stored in a local first (`let lossy = match x.trailing_zeros() {..}; if lossy {..}`):
                # follow the data and control dependences of every switch that dominates the shift and can bypass it
                body = f["mir"]
                start = []
                for sb, blk in enumerate(body["bbs"]):
                    tt = blk["t"]
                    if tt["k"] == "switch" and sb != bb and cfg.dominates(sb, bb) and not all(bb in cfg.reach_from(x) for x in cfg.succ[sb]):
                        mir.walk_places(tt["d"], lambda p: start.append(p["l"]))
                if start:
                    _locs, calls = mir.backward_slice(body, start, control=True)
                    for cb in calls:
                        cp2 = mir.callee_path(body["bbs"][cb]["t"]) or ""
                        if any(k in cp2 for k in ("trailing_zeros", "are_low_bits_nonzero", "split_bits", "is_multiple_of", "is_power_of_two")):
                            ok = True
            key = "TryFrom<%s> for %s: >> guarded" % (a, b)
            if ok:
                res.ok("R06.2", cfgname, key, sample=dict(function=f["p"]))
            else:
                res.fail("R06.2", cfgname, key, "%s shifts the converted value right without testing the shifted-out bits: a fractional input (e.g. 1.5) is truncated and reported as Ok instead of LossOfPrecision" % f["p"], span_loc(t["sp"]))
    res.floor("R06.2", cfgname, n, 4, "right shifts inside TryFrom bodies")


def _skeleton(f):
    """multiset of statement shapes of a body with numeric constants and primitive widths erased"""
    from collections import Counter
    c = Counter()
    S = sym.Sym(f)
    for i, j, st in mir.iter_stmts(f["mir"]):
        if st["k"] != "as":
            continue
        rv = st["rv"]
        if rv["k"] == "bin":
            c["bin:" + rv["op"].replace("WithOverflow", "")] += 1
        elif rv["k"] == "agg" and rv["ak"] == "adt":
            ops = []
            for o in rv["ops"]:
                t = S.operand(o)
                ops.append(t[0] if t[0] != "call" else "call:" + t[1].rsplit("::", 1)[1])
            c["agg:%s::%s(%s)" % (rv["adt"].rsplit("::", 1)[1], rv["vn"], ",".join(ops))] += 1
    for bb, t, fr in mir.iter_calls(f["mir"]):
        cp = fr and (fr.get("rp") or fr["p"])
        if cp:
            c["call:" + re.sub(r"(f|u|i)(16|32|64|128)", r"\1N", cp)] += 1
    return c


# f32 / f64 siblings that legitimately differ in structure (one line of reason each)
F32_F64_DIFFER = {
    "<f32 as dashu_base::bit::FloatEncoding>::decode": "f32 decodes through i32 with an explicit sign product and a range test; f64 through i64 (two Ok arms)",
    "dashu_int::convert::repr::to_f32_small": "a DoubleWord exceeds f32's range (infinity test needed) but not f64's",
    "dashu_int::convert::repr::<impl dashu_int::repr::TypedReprRef<'a>>::to_f32": "f32 has a small-value path for a whole DoubleWord, f64 handles RefSmall inline",
}
SKELETON_SIBLINGS = [
    ("dashu_base", "<f32 as dashu_base::bit::FloatEncoding>::encode", "<f64 as dashu_base::bit::FloatEncoding>::encode"),
]


def _r06_4(res, P, cfgname):
    for crate, a, b in SKELETON_SIBLINGS:
        fa = next((f for f in P.fns(crate) if f["p"] == a), None)
        fb = next((f for f in P.fns(crate) if f["p"] == b), None)
        key = "%s ~ %s" % (a, b)
        if fa is None or fb is None:
            res.anchor("R06.4", cfgname, "sibling pair " + key)
            continue
        sa, sb = _skeleton(fa), _skeleton(fb)
        if sa == sb:
            res.ok("R06.4", cfgname, key, sample=dict(pair=[a, b], shapes=sum(sa.values())))
        else:
            diff = {k: (sa[k], sb[k]) for k in set(sa) | set(sb) if sa[k] != sb[k]}
            res.fail("R06.4", cfgname, key, "the f32 and f64 implementations of one IEEE encoding step differ in structure (shape: count in f32 vs f64): %s" % dict(list(diff.items())[:3]), span_loc(fb["sp"]))
    # every other f32 / f64 pair of functions (same path up to the width): same skeleton, or reviewed
    by = {}
    for f in P.fns():
        if f["crate"].startswith("dashu") and f["crate"] != "dashu_macros" and f.get("mir") and f.get("kind") != "Closure":
            by.setdefault(f["p"], f)
    npairs = 0
    for p in sorted(by):
        if "f32" not in p:
            continue
        q = p.replace("f32", "f64")
        if q == p or q not in by or (by[p]["crate"], p, q) in SKELETON_SIBLINGS:
            continue
        npairs += 1
        key = "%s ~ f64 sibling" % p
        sa, sb = _skeleton(by[p]), _skeleton(by[q])
        exc = next((w for k_, w in F32_F64_DIFFER.items() if p.endswith(k_)), None)
        if sa == sb:
            res.ok("R06.4", cfgname, key, nontrivial=sum(sa.values()) > 3)
        elif exc:
            res.ok("R06.4", cfgname, key + " (reviewed difference)", sample=dict(function=p, reason=exc))
        else:
            diff = {k: (sa[k], sb[k]) for k in set(sa) | set(sb) if sa[k] != sb[k]}
            res.fail("R06.4", cfgname, key, "%s and its f64 sibling differ in structure (shape: count in f32 vs f64): %s" % (p, dict(list(diff.items())[:3])), span_loc(by[p]["sp"]))
    res.floor("R06.4", cfgname, npairs, 30, "f32 / f64 sibling function pairs")
    # integer -> float: bits kept, sticky range and exponent come from one split position
    for name in ("to_f32_nontrivial", "to_f64_nontrivial"):
        f = next((g for g in P.fns("dashu_int") if g.get("name") == name), None)
        if f is None:
            # the helper may have been inlined into its caller: the function that encodes into this float type
            # from a shifted big integer
            ty = name[3:6]
            for g in P.fns("dashu_int"):
                if not g.get("mir") or "convert" not in g["p"]:
                    continue
                cps = [(fr.get("rp") or fr["p"]) for bb, t, fr in mir.iter_calls(g["mir"]) if fr]
                if any(c.endswith("::are_low_bits_nonzero") for c in cps) and any(c == "<%s as dashu_base::bit::FloatEncoding>::encode" % ty for c in cps):
                    f = g
                    break
        if f is None:
            res.anchor("R06.4", cfgname, "fn " + name)
            continue
        S = sym.Sym(f)
        terms = {}
        for bb, t, fr in mir.iter_calls(f["mir"]):
            cp = fr and (fr.get("rp") or fr["p"]) or ""
            if cp.endswith("::shr") and "shift_ops" in cp:
                terms["shift"] = strip_bb(sym.strip_casts(S.operand(t["a"][1])))
            if cp.endswith("::are_low_bits_nonzero"):
                terms["sticky"] = strip_bb(sym.strip_casts(S.operand(t["a"][1])))
            if cp.endswith("FloatEncoding>::encode"):
                terms["exponent"] = strip_bb(sym.strip_casts(S.operand(t["a"][1])))
        key = "%s: shift == sticky range == exponent" % name
        if len(terms) != 3:
            res.anchor("R06.4", cfgname, key + " (found %s)" % sorted(terms))
        elif len({sym.term_str(v, 200) for v in terms.values()}) == 1:
            res.ok("R06.4", cfgname, key, sample=dict(function=f["p"], split=sym.term_str(terms["shift"], 80)))
        else:
            res.fail("R06.4", cfgname, key, "%s splits the integer inconsistently: kept bits start at %s, sticky range is below %s, exponent is %s (a discarded bit would be neither kept nor counted as lost)" % (
                f["p"], sym.term_str(terms["shift"], 60), sym.term_str(terms["sticky"], 60), sym.term_str(terms["exponent"], 60)), span_loc(f["sp"]))


def _r06_3(res, P, cfgname):
    n = 0
    for f in P.fns("dashu_int"):
        if not f.get("trait", "").startswith("core::convert::TryFrom<") or f.get("name") != "try_from":
            continue
        m = re.match(r"core::convert::TryFrom<(.*)>$", f["trait"])
        a, b = cls(m.group(1)), cls(f.get("self_ty", ""))
        if a not in ("UBig", "IBig") or b not in ("uN", "iN"):
            continue
        n += 1
        cal = [(fr.get("rp") or fr["p"]) for bb, t, fr in mir.iter_calls(f["mir"]) if fr]
        key = f["p"]
        has_kernel = any(c.endswith(("::try_to_unsigned", "::try_to_signed", "::try_into", "::try_from")) for c in cal)
        casts = [s for i, j, s in mir.iter_stmts(f["mir"]) if s["k"] == "as" and s["rv"]["k"] == "cast" and s["rv"]["ck"] == "int2int"]
        if has_kernel and not casts:
            res.ok("R06.3", cfgname, key, nontrivial=True)
        else:
            res.fail("R06.3", cfgname, key, "%s does not go through the range-checked kernels (calls %s, %d integer casts)" % (f["p"], cal[:3], len(casts)), span_loc(f["sp"]))
    # the kernels themselves: every int2int narrowing cast on a path to Ok is dominated by a compare
    for name in ("try_to_unsigned", "try_to_signed"):
        for f in P.fns("dashu_int"):
            if f.get("name") == name:
                n += 1
                S = sym.Sym(f)
                cfg = mir.cfg_of(f["mir"])
                bad = None
                for i, j, s in mir.iter_stmts(f["mir"]):
                    if s["k"] == "as" and s["rv"]["k"] == "cast" and s["rv"]["ck"] == "int2int":
                        pass
                cal = [(fr.get("rp") or fr["p"]) for bb, t, fr in mir.iter_calls(f["mir"]) if fr]
                key = "kernel " + f["p"]
                if any("try_from" in c or "try_into" in c or "shrink_dword" in c or "try_from_sign_magnitude" in c or c.endswith("::" + name) for c in cal):
                    res.ok("R06.3", cfgname, key)
                else:
                    res.fail("R06.3", cfgname, key, "%s no longer narrows through a checked conversion (calls %s)" % (f["p"], cal[:4]), span_loc(f["sp"]))
    res.floor("R06.3", cfgname, n, 24, "TryFrom<big> for primitive integer impls")


# ---------------------------------------------------------------------------------------------
# R06.6  `>>` on an IBig is an arithmetic shift: it floors (-9 >> 1 == -5) whereas the float / rational
# code means "drop low digits of the magnitude" (truncate toward zero) and therefore shifts magnitudes
# (shr_digits, split_digits, UBig).  Every IBig right shift in dashu_float / dashu_ratio is reviewed.
IBIG_SHR_REVIEWED = {
    "dashu_float::repr::Repr::<B>::normalize": "exact: shifts out exactly the trailing zero bits / digits just counted",
    "dashu_ratio::repr::Repr::reduce2": "exact: shifts out the common trailing zeros of numerator and denominator",
    "dashu_ratio::convert::<impl dashu_ratio::repr::Repr>::to_f32_fast": "documented as fast and not correctly rounded; 106/53-bit estimate",
    "dashu_ratio::convert::<impl dashu_ratio::repr::Repr>::to_f64_fast": "documented as fast and not correctly rounded",
}


def _r06_6(res, P, cfgname):
    res.rule("R06.6", "IBig `>>` (floors on negatives) appears in the float / rational crates only at reviewed exact or documented-approximate sites; truncating conversions shift magnitudes")
    n = 0
    for f in P.fns():
        if f["crate"] not in ("dashu_float", "dashu_ratio") or not f.get("mir"):
            continue
        for bb, t, fr in mir.iter_calls(f["mir"]):
            cp = fr and (fr.get("rp") or fr["p"])
            if not cp or not ("bit::Shr" in cp) or "ibig::IBig" not in cp.split(" for ")[-1]:
                continue
            n += 1
            key = "IBig >> in " + f["p"]
            if f["p"] in IBIG_SHR_REVIEWED:
                res.ok("R06.6", cfgname, key, sample=dict(function=f["p"], reviewed=IBIG_SHR_REVIEWED[f["p"]]))
            else:
                res.fail("R06.6", cfgname, key, "%s shifts an IBig right with `>>`: on a negative value this floors (−4.5 → −5) instead of truncating toward zero like the digit-shift helpers (shr_digits / split_digits) do" % f["p"], span_loc(t["sp"]))
    res.floor("R06.6", cfgname, n, 3, "IBig right-shift sites in dashu_float / dashu_ratio")


# ---------------------------------------------------------------------------------------------
# R06.7  range thresholds of the float -> f32 / f64 encoders are the IEEE 754 parameters, not free
# constants.  With an integer significand of at most MANT_DIG bits, value = m * 2^e:
#   overflow   exactly when e >= MAX_EXP                   (f32: 128, f64: 1024)
#   underflow to zero when e <  MIN_EXP - 2 * MANT_DIG     (f32: -125 - 48 = -173, f64: -1021 - 106 = -1127)
#   the debug contract bit_len(m) <= MANT_DIG              (24 / 53)
# The slots are filled from core's f32 / f64 constants; 127 (the largest *biased-free exponent of a
# normalised significand*) in place of 128 turns the representable 2^127 into infinity.
IEEE = {"f32": dict(MAX_EXP=128, MIN_EXP=-125, MANT_DIG=24), "f64": dict(MAX_EXP=1024, MIN_EXP=-1021, MANT_DIG=53)}


def _const_value(t):
    t = sym.strip_casts(t)
    if t[0] == "const" and isinstance(t[1], int):
        return t[1]
    if t[0] == "bin" and t[1] in ("Sub", "Add"):
        a, b = _const_value(t[2]), _const_value(t[3])
        if a is not None and b is not None:
            return a - b if t[1] == "Sub" else a + b
    return None


def _r06_7(res, P, cfgname):
    res.rule("R06.7", "Repr::into_f32_internal / into_f64_internal compare the exponent with exactly MAX_EXP (overflow) and MIN_EXP - 2*MANT_DIG (underflow) of the target IEEE format")
    for ty, par in IEEE.items():
        f = next((g for g in P.fns("dashu_float") if g["p"].endswith("::into_%s_internal" % ty)), None)
        if f is None:
            res.anchor("R06.7", cfgname, "fn into_%s_internal" % ty)
            continue
        S = sym.Sym(f)
        found = {}
        for i, j, st in mir.iter_stmts(f["mir"]):
            if st["k"] == "as" and st["rv"]["k"] == "bin" and st["rv"]["op"] in ("Ge", "Gt", "Lt", "Le"):
                t = S.rvalue(st["rv"])
                a = sym.strip_casts(t[2])
                if a[0] == "place" and a[1] == ("arg", 1) and a[2] == (".exponent",):
                    v = _const_value(t[3])
                    found[t[1]] = (v, st)
        want = {"Ge": par["MAX_EXP"], "Lt": par["MIN_EXP"] - 2 * par["MANT_DIG"]}
        for op, w in want.items():
            key = "into_%s_internal exponent %s" % (ty, op)
            if op not in found:
                res.anchor("R06.7", cfgname, key + " comparison")
            elif found[op][0] == w:
                res.ok("R06.7", cfgname, key, sample=dict(function=f["p"], comparison="exponent %s %d" % (op, w), ieee=par))
            else:
                res.fail("R06.7", cfgname, key, "%s tests `exponent %s %s` but the %s format requires %d (MAX_EXP=%d, MIN_EXP=%d, MANT_DIG=%d): values at the boundary are sent to infinity / zero although representable" % (
                    f["p"], op, found[op][0], ty, w, par["MAX_EXP"], par["MIN_EXP"], par["MANT_DIG"]), span_loc(found[op][1]["sp"]))


# ---------------------------------------------------------------------------------------------
# R06.8 (= R03.4b)  flag laundering.  `x.value()` drops the Exact / Inexact flag of a rounding step; wrapping the
# result in `Exact(..)` afterwards reports a rounded value as exact.  No `Exact(..)` literal in the float /
# rational crates is built from the `.value()` of a Rounded result (count on the reviewed tree: 0; floors on
# the numbers of Exact literals and value() calls keep the rule from passing vacuously).
def exact_laundering(res, P, cfgname, rid):
    res.rule(rid, "no Approximation::Exact(..) is built from the .value() of a rounding result (the Inexact flag of an intermediate rounding must reach the caller)")
    nexact = nvalue = 0
    for f in P.fns():
        if f["crate"] not in ("dashu_float", "dashu_ratio") or not f.get("mir"):
            continue
        S = None
        for bb, t, fr in mir.iter_calls(f["mir"]):
            cp = fr and (fr.get("rp") or fr["p"])
            if cp and cp.endswith("Approximation::<T, E>::value"):
                nvalue += 1
        k = 0
        for i, j, st in mir.iter_stmts(f["mir"]):
            if st["k"] == "as" and st["rv"]["k"] == "agg" and str(st["rv"].get("adt", "")).endswith("approx::Approximation") and st["rv"].get("vn") == "Exact":
                nexact += 1
                S = S or sym.Sym(f)
                t = S.operand(st["rv"]["ops"][0])
                vs = [x for x in sym.subterms(t) if isinstance(x, tuple) and x[0] == "call" and x[1].endswith("Approximation::<T, E>::value")]
                if vs:
                    k += 1
                    res.fail(rid, cfgname, "%s Exact(..value()..) #%d" % (f["p"], k), "%s wraps `%s` in Exact(..): the value comes from the .value() of a rounding step whose Inexact flag is thereby discarded" % (f["p"], sym.term_str(vs[0], 90)), span_loc(st["sp"]))
    if nexact >= 30 and nvalue >= 20:
        res.ok(rid, cfgname, "no Exact(..) literal launders a .value() (%s)" % cfgname, sample=dict(exact_literals=nexact, value_calls=nvalue))
    res.floor(rid, cfgname, nexact, 30, "Approximation::Exact literals in dashu_float / dashu_ratio")
    res.floor(rid, cfgname, nvalue, 20, "Approximation::value calls in dashu_float / dashu_ratio")


LEVEL = LEVEL + ' Also (R06.4) the f32 / f64 encode kernels and the to_fNN splits agree structurally, (R06.5) every half test compares a remainder with the divisor it came from, (R06.6) IBig `>>` (flooring) appears only at reviewed exact sites.'
TECHNIQUE = 'impl-table lattice rule for infallible From; dominance of shifted-out-bit tests; sibling skeleton agreement (f32 ~ f64); half-test pairing by backward slices; reviewed inventory of flooring shifts'
LEVEL = LEVEL + " Also (R06.4) all f32 / f64 sibling functions have the same statement skeleton; (R06.7) the encoders' range thresholds are MAX_EXP and MIN_EXP - 2*MANT_DIG; (R06.8) no Exact(..) launders a .value()."
LEVEL = LEVEL + ' (R10.8) inside a `B.is_power_of_two()` branch of the float / rational code every shift amount depends on B.trailing_zeros(): a digit count is never used as a bit count for bases 4, 8, 16, ...'


# ---- R06.9: a rational converts to an integer only when its denominator is one --------------------------------
# TryFrom<Repr> for UBig / IBig (RBig, Relaxed and all primitive targets delegate to these two): every block that
# builds the `Ok(..)` result is dominated by the true edge of `is_one()` applied to the *denominator field of the
# argument*.  (Sibling agreement: the two impls must guard with the same field.)
def _r06_9(res, P, cfgname):
    import re
    res.rule("R06.9", "TryFrom<rational Repr> for UBig / IBig returns Ok only on the true edge of `self.denominator.is_one()`")
    n = 0
    pat = re.compile(r"TryFrom<dashu_ratio::repr::Repr> for dashu_int::(ubig::UBig|ibig::IBig)>::try_from$")
    for f in P.fns("dashu_ratio"):
        body = f.get("mir")
        if not body or not pat.search(f["p"]):
            continue
        cfg = mir.cfg_of(body)
        du = mir.defuse_of(body)
        # true targets of switches on is_one(&arg1.denominator)
        gates = []
        for bb, t, fr in mir.iter_calls(body):
            cp = fr and (fr.get("rp") or fr["p"]) or ""
            if not cp.endswith("UBig::is_one") or not t["a"]:
                continue
            al = (mir.op_place(t["a"][0]) or {}).get("l")
            on_den = False
            for (b2, idx, node) in du.defs.get(al, []):
                if idx != "t" and node["k"] == "as" and node["rv"]["k"] == "ref":
                    pl = node["rv"]["p"]
                    if pl.get("l") == 1 and any(pr.get("k") == "f" and pr.get("n") == "denominator" for pr in pl.get("p", [])):
                        on_den = True
            nxt = t.get("t")
            sw = body["bbs"][nxt]["t"] if nxt is not None else {}
            if on_den and sw.get("k") == "switch" and (mir.op_place(sw["d"]) or {}).get("l") == t["d"]["l"] and [v for v, _ in sw["ts"]] == ["0"]:
                gates.append(sw["o"])
        k = 0
        for i, j, st in mir.iter_stmts(body):
            if st["k"] == "as" and st["p"].get("l") == 0 and not st["p"].get("p") and st["rv"]["k"] == "agg" and st["rv"].get("adt") == "core::result::Result" and st["rv"].get("vn") == "Ok":
                k += 1
                n += 1
                key = "%s|Ok #%d" % (f["p"], k)
                if any(cfg.dominates(g, i) for g in gates):
                    res.ok("R06.9", cfgname, key, sample=dict(function=f["p"]))
                else:
                    res.fail("R06.9", cfgname, key, "%s returns Ok(..) on a path that has not passed `denominator.is_one()` of the source: a non-integral rational converts "
                             "silently (and an integral one may be refused)" % f["p"], mir.span_loc(st.get("sp") or f["sp"]))
    res.floor("R06.9", cfgname, n, 2, "Ok results of rational -> integer conversions")
LEVEL = LEVEL + ' (R06.9) TryFrom<rational> for UBig / IBig (to which RBig, Relaxed and every primitive target delegate) build Ok only behind `denominator.is_one()` of the source.'
TECHNIQUE = TECHNIQUE + '; dominance of Ok results by the denominator test in rational -> integer conversions; shift-amount dependence inside power-of-two-base branches'
