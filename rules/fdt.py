"""FDT — finite-domain tabulation of comparison-only dispatch bodies.

A body that touches its numeric inputs only through a handful of predicates (is_zero, sign, bit(0),
comparisons, enum matches) has a finite decision table.  The table is computed here by an abstract
walk of the MIR: values are abstract objects (small concrete scalars for enums / bools / orderings,
representative integers for "big number" atoms, tuples, ADT values, closures bound to domain values),
calls are answered by *summaries* of the leaf predicates (never by the analysed code), and every
branch condition evaluates to a concrete value, so exactly one path is taken per domain point.
Anything without a summary raises Undecided, which the rules report as an anchor failure.
"""
from . import mir

ORDERING_DISCR = {"Less": -1, "Equal": 0, "Greater": 1}


class Undecided(Exception):
    pass


class Panic(Exception):
    pass


class Adt:
    """value of an enum / struct: (adt path, variant name, fields)"""
    __slots__ = ("adt", "variant", "fields", "vidx")

    def __init__(self, adt, variant, fields=(), vidx=0):
        self.adt, self.variant, self.fields, self.vidx = adt, variant, list(fields), vidx

    def __eq__(self, o):
        return isinstance(o, Adt) and (self.adt, self.variant, self.fields) == (o.adt, o.variant, o.fields)

    def __hash__(self):
        return hash((self.adt, self.variant))

    def __repr__(self):
        n = self.adt.rsplit("::", 1)[-1]
        return "%s::%s%s" % (n, self.variant, tuple(self.fields) if self.fields else "")

    def discr(self):
        if self.adt == "core::cmp::Ordering":
            return ORDERING_DISCR[self.variant]
        return self.vidx


def ordering(n):
    v = "Less" if n < 0 else ("Equal" if n == 0 else "Greater")
    return Adt("core::cmp::Ordering", v, (), {"Less": 0, "Equal": 1, "Greater": 2}[v])


def sign_of(n):
    return Adt("dashu_base::sign::Sign", "Positive" if n >= 0 else "Negative", (), 0 if n >= 0 else 1)


class Big:
    """representative of an arbitrary-precision value: wraps a Python int / Fraction; `kind` is the
    static type class (UBig/IBig/...) so summaries can dispatch"""
    __slots__ = ("v", "kind")

    def __init__(self, v, kind="IBig"):
        self.v, self.kind = v, kind

    def __eq__(self, o):
        return isinstance(o, Big) and self.v == o.v

    def __hash__(self):
        return hash(self.v)

    def __repr__(self):
        return "%s(%s)" % (self.kind, self.v)


class Closure:
    """either bound to a domain value (value is not None) or a real closure (fn + captured values)"""

    def __init__(self, fn_or_value, captures=None, fn=None):
        self.value = fn_or_value
        self.captures = captures
        self.fn = fn


class Evaluator:
    def __init__(self, P, summaries, consts=None, max_steps=5000, inline=()):
        self.P = P
        self.summaries = summaries      # callee path (exact or suffix) -> python function(ev, args) -> value
        self.consts = consts or {}
        self.max_steps = max_steps
        self.inline = set(inline)       # workspace fns evaluated by walking their own body
        self.trace = []
        self.dispatch = None            # optional: (path, fref) -> fn, for calls on type parameters

    def summary_for(self, path):
        s = self.summaries.get(path)
        if s is not None:
            return s
        for k, v in self.summaries.items():
            if k.startswith("*") and path.endswith(k[1:]):
                return v
        return None

    def call(self, fn, args):
        body = fn["mir"]
        locals_ = {}
        for i, a in enumerate(args):
            locals_[i + 1] = a
        bb = 0
        steps = 0
        while True:
            steps += 1
            if steps > self.max_steps:
                raise Undecided("step limit in " + fn["p"])
            blk = body["bbs"][bb]
            for s in blk["s"]:
                if s["k"] == "as":
                    self.assign(locals_, s["p"], self.rvalue(locals_, s["rv"], fn))
                elif s["k"] == "setdiscr":
                    raise Undecided("set-discriminant")
            t = blk["t"]
            k = t["k"]
            if k == "goto":
                bb = t["t"]
            elif k == "ret":
                return locals_.get(0)
            elif k == "switch":
                v = self.operand(locals_, t["d"], fn)
                v = self.scalar(v, t.get("dty"))
                nxt = t["o"]
                for val, tgt in t["ts"]:
                    if int(val) == v:
                        nxt = tgt
                        break
                self.trace.append((bb, nxt))
                bb = nxt
            elif k == "call":
                fr = mir.callee(t)
                args_v = [self.operand(locals_, a, fn) for a in t["a"]]
                if fr is None:
                    raise Undecided("indirect call")
                path = fr.get("rp") or fr["p"]
                if fr.get("never"):
                    raise Panic(path)
                r = self.do_call(path, fr, args_v, fn)
                self.assign(locals_, t["d"], r)
                if t["t"] is None:
                    raise Panic(path)
                bb = t["t"]
            elif k == "assert":
                c = self.scalar(self.operand(locals_, t["c"], fn), "bool")
                if bool(c) != bool(t["e"]):
                    raise Panic("assert " + t["ak"])
                bb = t["t"]
            elif k == "drop":
                bb = t["t"]
            elif k == "unreachable":
                raise Panic("unreachable")
            else:
                raise Undecided("terminator " + k)

    def do_call(self, path, fr, args, caller):
        s = self.summary_for(path)
        if s is not None:
            return s(self, args, fr)
        if path.endswith("FnOnce<Args>>::call_once") or path.endswith("FnOnce::call_once") or "ops::function::FnOnce" in path:
            c = args[0]
            if isinstance(c, Closure):
                if c.value is not None:
                    return c.value
                if c.fn is not None:
                    env = tuple(c.captures or ())
                    rest = list(args[1]) if len(args) > 1 and isinstance(args[1], tuple) else []
                    return self.call(c.fn, [env] + rest)
            raise Undecided("call_once on " + repr(c))
        if self.dispatch is not None:
            g = self.dispatch(path, fr)
            if g is not None:
                return self.call(g, args)
        g = self.P.fn.get(fr.get("r")) if fr.get("r") else None
        if g is not None and (g["p"] in self.inline or path in self.inline):
            return self.call(g, args)
        # structural equality of field-less enum values / scalars (derive(PartialEq) and the default `ne`)
        last = path.rsplit("::", 1)[-1]
        if last in ("eq", "ne") and "PartialEq" in path and len(args) == 2:
            a, b = args
            simple = lambda v: isinstance(v, (int, bool)) or (isinstance(v, Adt) and not v.fields)
            if simple(a) and simple(b):
                same = (a == b) if not (isinstance(a, Adt) and isinstance(b, Adt)) else (a.adt == b.adt and a.variant == b.variant)
                return int(same if last == "eq" else not same)
        raise Undecided("no summary for " + path)

    # ---- values ------------------------------------------------------------------------------
    def scalar(self, v, ty=None):
        if isinstance(v, bool):
            v = int(v)
        if isinstance(v, Adt):
            v = v.discr()
        if not isinstance(v, int):
            raise Undecided("switch on non-scalar %r" % (v,))
        if v < 0:
            bits = {"i8": 8, "i16": 16, "i32": 32, "i64": 64, "isize": 64, "i128": 128}.get(ty, 8 if ty is None else 64)
            v += 1 << bits
        return v

    def operand(self, locals_, op, fn):
        c = op.get("c")
        if c is not None:
            return self.const(c)
        p = op.get("cp") or op.get("mv")
        return self.read(locals_, p)

    def const(self, c):
        if "v" in c:
            v = mir.const_int(c)
            if c.get("ty") == "bool":
                return int(v)
            return v
        if "param" in c and ("param:" + c["param"]) in self.consts:
            return self.consts["param:" + c["param"]]
        name = c.get("uvp") or c.get("s") or ""
        if "promoted" in c:
            owner = self.P.fn.get(c.get("uv"))
            if owner is not None and c["promoted"] < len(owner.get("promoted", [])):
                body = owner["promoted"][c["promoted"]]
                return self.call({"mir": body, "p": "promoted[%d] of %s" % (c["promoted"], owner["p"])}, [])
            name = "promoted:%s[%d]" % (c.get("uvp"), c["promoted"])
        for k, v in self.consts.items():
            if name.endswith(k):
                return v
        # a named constant of the workspace whose value the driver evaluated (integers, bool, f32 / f64 bit patterns)
        pc = getattr(self.P, "consts", {}).get(c.get("uvp") or "")
        if pc is not None and "v" in pc and "promoted" not in c:
            bits, ty = int(pc["v"]), pc.get("ty")
            if ty == "f32":
                import struct
                return struct.unpack("<f", bits.to_bytes(4, "little"))[0]
            if ty == "f64":
                import struct
                return struct.unpack("<d", bits.to_bytes(8, "little"))[0]
            if ty == "bool":
                return int(bits)
        if "fn" in c:
            return ("fnptr", c["fn"].get("rp") or c["fn"]["p"])
        s = str(c.get("s"))
        # unit enum variants printed as constants
        for adt, variants in (("dashu_base::sign::Sign", ("Positive", "Negative")), ("core::cmp::Ordering", ("Less", "Equal", "Greater")),
                              ("dashu_float::round::Rounding", ("NoOp", "AddOne", "SubOne"))):
            for i, vn in enumerate(variants):
                if s.endswith(adt + "::" + vn) or s.endswith("::" + vn) and adt.rsplit("::", 1)[1] in s:
                    return Adt(adt, vn, (), i)
        if s == "()" or c.get("ty") == "()":
            return ()
        if c.get("ty") in ("f32", "f64"):
            try:
                return float(s.replace("_f32", "").replace("_f64", "").replace("f32", "").replace("f64", ""))
            except ValueError:
                pass
        raise Undecided("constant " + s)

    def read(self, locals_, p):
        if p["l"] not in locals_:
            raise Undecided("read of unassigned local _%d" % p["l"])
        v = locals_[p["l"]]
        for e in p.get("p", []):
            k = e["k"]
            if k == "deref":
                continue            # references are transparent
            if k == "f":
                if isinstance(v, tuple):
                    v = v[e["i"]]
                elif isinstance(v, Adt):
                    v = v.fields[e["i"]]
                else:
                    raise Undecided("field of %r" % (v,))
            elif k == "dc":
                if not isinstance(v, Adt) or v.variant != e["n"]:
                    raise Undecided("downcast of %r to %s" % (v, e["n"]))
            else:
                raise Undecided("projection " + k)
        return v

    def assign(self, locals_, p, val):
        projs = [e for e in p.get("p", []) if e["k"] != "deref"]
        if not projs:
            locals_[p["l"]] = val
            return
        if len(projs) > 1 and all(e["k"] == "f" for e in projs):
            cur = locals_.get(p["l"])
            for e in projs[:-1]:
                if isinstance(cur, Adt):
                    cur = cur.fields[e["i"]]
                else:
                    raise Undecided("nested assignment into %r" % (cur,))
            if isinstance(cur, Adt):
                cur.fields[projs[-1]["i"]] = val
                return
            raise Undecided("nested assignment into %r" % (cur,))
        if len(projs) == 1 and projs[0]["k"] == "f":
            cur = locals_.get(p["l"])
            i = projs[0]["i"]
            if cur is None:
                cur = [None] * (i + 1)
            if isinstance(cur, tuple):
                cur = list(cur)
            if isinstance(cur, list):
                while len(cur) <= i:
                    cur.append(None)
                cur[i] = val
                locals_[p["l"]] = tuple(cur)
                return
            if isinstance(cur, Adt):
                cur.fields[i] = val
                return
        raise Undecided("assignment through projection")

    def rvalue(self, locals_, rv, fn):
        k = rv["k"]
        if k == "use":
            return self.operand(locals_, rv["a"], fn)
        if k in ("ref", "rawptr"):
            return self.read(locals_, rv["p"])
        if k == "discr":
            v = self.read(locals_, rv["p"])
            if isinstance(v, Adt):
                return v.discr()
            raise Undecided("discriminant of %r" % (v,))
        if k == "agg":
            ops = [self.operand(locals_, o, fn) for o in rv["ops"]]
            if rv["ak"] == "tuple":
                return tuple(ops)
            if rv["ak"] == "adt":
                return Adt(rv["adt"], rv["vn"], ops, rv["v"])
            if rv["ak"] == "closure":
                return Closure(None, ops, self.P.fn.get(rv.get("def")))
            raise Undecided("aggregate " + rv["ak"])
        if k == "bin":
            a = self.operand(locals_, rv["a"], fn)
            b = self.operand(locals_, rv["b"], fn)
            return self.binop(rv["op"], a, b)
        if k == "un":
            a = self.operand(locals_, rv["a"], fn)
            if rv["op"] == "Not":
                if a in (0, 1, True, False):
                    return int(not a)
                raise Undecided("Not of %r" % (a,))
            if rv["op"] == "Neg":
                return -a
            raise Undecided("unop " + rv["op"])
        if k == "cast":
            a = self.operand(locals_, rv["a"], fn)
            if rv["ck"] == "IntToFloat":
                return float(a)
            if rv["ck"] == "FloatToInt":
                return int(a)
            if isinstance(a, (int, bool)):
                return int(a)
            if isinstance(a, Adt) and rv["ck"] == "int2int":
                return a.discr()
            return a
        raise Undecided("rvalue " + k)

    def binop(self, op, a, b):
        if isinstance(a, Adt):
            a = a.discr()
        if isinstance(b, Adt):
            b = b.discr()
        if isinstance(a, float) or isinstance(b, float):
            if isinstance(a, (int, float)) and isinstance(b, (int, float)):
                r = {"Eq": lambda: int(a == b), "Ne": lambda: int(a != b), "Lt": lambda: int(a < b), "Le": lambda: int(a <= b),
                     "Gt": lambda: int(a > b), "Ge": lambda: int(a >= b), "Add": lambda: a + b, "Sub": lambda: a - b,
                     "Mul": lambda: a * b, "Div": lambda: a / b}.get(op)
                if r is not None:
                    return r()
            raise Undecided("float binop %s" % op)
        if not isinstance(a, (int, bool)) or not isinstance(b, (int, bool)):
            raise Undecided("binop %s on %r, %r" % (op, a, b))
        a, b = int(a), int(b)
        base = op.replace("WithOverflow", "").replace("Unchecked", "")
        r = {"Eq": lambda: int(a == b), "Ne": lambda: int(a != b), "Lt": lambda: int(a < b), "Le": lambda: int(a <= b),
             "Gt": lambda: int(a > b), "Ge": lambda: int(a >= b), "BitAnd": lambda: a & b, "BitOr": lambda: a | b,
             "BitXor": lambda: a ^ b, "Add": lambda: a + b, "Sub": lambda: a - b, "Mul": lambda: a * b,
             "Div": lambda: _idiv(a, b), "Rem": lambda: a - b * _idiv(a, b), "Shl": lambda: a << b, "Shr": lambda: a >> b}.get(base)
        if r is None:
            raise Undecided("binop " + op)
        v = r()
        if op.endswith("WithOverflow"):
            return (v, 0)
        return v


def _idiv(a, b):
    if b == 0:
        raise Panic('division by zero')
    q = abs(a) // abs(b)
    return -q if (a < 0) != (b < 0) else q


def tabulate(P, fn, domain, summaries, consts=None, inline=(), dispatch=None):
    """domain: list of (label, args).  Returns {label: value | ('panic', why) | ('undecided', why)}"""
    out = {}
    for label, args in domain:
        ev = Evaluator(P, summaries, consts, inline=inline)
        ev.dispatch = dispatch
        try:
            out[label] = ev.call(fn, args)
        except Panic as e:
            out[label] = ("panic", str(e))
        except Undecided as e:
            out[label] = ("undecided", str(e))
    return out
