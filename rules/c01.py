"""C01 — integer ring arithmetic (necessary conditions only): no carry is dropped, the algorithm
dispatcher agrees with the scratch-memory estimator, the sign dispatch of + - * equals the ring
identity in every ownership form.  Not decided: schoolbook/Karatsuba/Toom-3 products, carry chains,
powering (numeric)."""
from . import intalg

PROP = "C01"
CONFIGS = {"quick": ["dbg", "rel"], "thorough": ["dbg", "rel", "feat", "w32", "nostd"]}
LEVEL = ("Necessary structural conditions of exact ring arithmetic, decided exhaustively: (R01.1) at each of the "
         "call sites of carry/borrow-returning kernels the result is consumed; (R01.2) for every operand length up to "
         "4x the largest threshold the multiplication / squaring dispatcher and the scratch-memory estimator select the "
         "same algorithm class (computed by abstract evaluation of both bodies with the crate's own threshold "
         "constants); (R01.3) every ownership form of + - * on IBig x IBig / UBig x IBig / IBig x UBig returns, in every "
         "sign cell and magnitude ordering, the value prescribed by integer arithmetic when the unsigned kernels are "
         "exact. The kernels themselves (carry chains, Karatsuba, Toom-3, powering) are numeric and not decided.")
TRUSTED = ["rustc MIR", "summaries of the unsigned kernels as exact arithmetic (rules/intalg.py)", "the evaluated threshold constants exported by the driver"]
NOTE = "Decides necessary conditions only; a wrong carry chain inside a kernel is out of reach of this family."


def run(res, programs, tier):
    intalg.r01_1(res, programs, "R01.1")
    intalg.r01_2(res, programs, "R01.2", "mul")
    intalg.r_sign_tables(res, programs, "R01.3", intalg.OPS)
    from . import c19
    c19.shared_r19_2(res, programs)


LEVEL = LEVEL + ' Also (R19.2, shared) no arithmetic step of the integer kernels sits inside a debug assertion.'
TECHNIQUE = 'static analysis of MIR: path-sensitive use-of-result rule (carry/borrow consumed on every path), abstract evaluation of dispatcher and estimator bodies over all length classes, finite sign tables (FDT), debug-region effect analysis'
