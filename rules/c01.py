"""C01 — integer ring arithmetic (necessary conditions only): no carry is dropped, the algorithm
dispatcher agrees with the scratch-memory estimator, the sign dispatch of + - * equals the ring
identity in every ownership form.  Not decided: schoolbook/Karatsuba/Toom-3 products, carry chains,
powering (numeric)."""
from . import intalg

PROP = "C01"
CONFIGS = {"quick": ["dbg", "rel"], "thorough": ["dbg", "rel", "feat", "w32", "nostd"]}
LEVEL = ("Necessary structural conditions of exact ring arithmetic, decided exhaustively: (R01.1) at each of the "
         "call sites of carry/borrow-returning kernels the result is consumed; (R01.2) for every operand length up to "
         "4x the largest threshold the multiplication / squaring dispatcher and the scratch-memory estimator select the "
         "same algorithm class (computed by abstract evaluation of both bodies with the crate's own threshold "
         "constants); (R01.3) every ownership form of + - * on IBig x IBig / UBig x IBig / IBig x UBig returns, in every "
         "sign cell and magnitude ordering, the value prescribed by integer arithmetic when the unsigned kernels are "
         "exact. The kernels themselves (carry chains, Karatsuba, Toom-3, powering) are numeric and not decided.")
TRUSTED = ["rustc MIR", "summaries of the unsigned kernels as exact arithmetic (rules/intalg.py)", "the evaluated threshold constants exported by the driver"]
NOTE = "Decides necessary conditions only; a wrong carry chain inside a kernel is out of reach of this family."


def run(res, programs, tier):
    for P in programs:
        if "dashu_int" in P.units:
            _r01_4(res, P, P.name)
            r01_5(res, P, P.name)
            r01_6(res, P, P.name)
    intalg.r01_1(res, programs, "R01.1")
    intalg.r01_2(res, programs, "R01.2", "mul")
    intalg.r_sign_tables(res, programs, "R01.3", intalg.OPS)
    from . import c19
    c19.shared_r19_2(res, programs)


# ---------------------------------------------------------------------------------------------
# R01.4  Buffer::push_resizing(w) appends w only when it is non-zero: it is the idiom for the *most
# significant* carry word.  After it the length of the buffer is unknown by one, so the next operation on
# the same buffer must not be another positional append (push / push_resizing / push_slice / push_zeros):
# a skipped zero word followed by a pushed higher word stores that word one position too low.
PUSHES = ("Buffer::push", "Buffer::push_resizing", "Buffer::push_slice", "Buffer::push_zeros", "Buffer::push_repeat")


def _buf_root(t):
    from .c17b import strip_bb
    t = strip_bb(t)
    while isinstance(t, tuple) and t[0] in ("ref", "refmut", "place", "cast"):
        t = t[2] if t[0] == "cast" else t[1]
        t = strip_bb(t)
    return t


def _r01_4(res, P, cfgname):
    from . import mir, sym
    res.rule("R01.4", "after Buffer::push_resizing (which skips a zero word) the next operation on the same buffer is never another positional append")
    n = 0
    for f in P.fns("dashu_int"):
        b = f.get("mir")
        if not b:
            continue
        calls = {bb: (t, fr) for bb, t, fr in mir.iter_calls(b) if fr}
        rs = [(bb, t) for bb, (t, fr) in calls.items() if (fr.get("rp") or fr["p"]).endswith("Buffer::push_resizing")]
        if not rs:
            continue
        S = sym.Sym(f)
        cfg = mir.cfg_of(b)
        k = 0
        for bb, t in rs:
            k += 1
            n += 1
            r0 = _buf_root(S.operand(t["a"][0]))
            bad = None
            seen, st = set(), [t["t"]] if t.get("t") is not None else []
            while st and bad is None:
                x = st.pop()
                if x in seen:
                    continue
                seen.add(x)
                c = calls.get(x)
                if c is not None:
                    t2, fr2 = c
                    cp2 = fr2.get("rp") or fr2["p"]
                    touches = any(_buf_root(S.operand(a)) == r0 for a in t2["a"])
                    if touches:
                        if cp2.endswith(PUSHES):
                            bad = (cp2.rsplit("::", 1)[-1], t2)
                        continue      # the buffer is used by something else first: position known again
                st.extend(cfg.succ[x])
            key = "%s push_resizing #%d" % (f["p"], k)
            if bad:
                res.fail("R01.4", cfgname, key, "%s calls %s on the same buffer right after push_resizing: if the first word is zero it is skipped and the next word lands one position too low" % (f["p"], bad[0]), mir.span_loc(bad[1]["sp"]))
            else:
                res.ok("R01.4", cfgname, key)
    res.floor("R01.4", cfgname, n, 10, "push_resizing call sites")


# ---------------------------------------------------------------------------------------------
# R01.5  a - b computed as -(b - a).  The signed subtraction kernels reuse the longer / owned buffer by
# swapping the operands of an unsigned subtraction; the result of a *swapped* call must be negated
# (`.neg()` / `.with_sign(Negative)`), the result of an unswapped call must not.  Each value returned by a
# function of `add_ops::repr_signed` that is the result of a two-operand subtraction kernel is checked:
# first operand rooted in the second parameter and second operand in the first  <=>  negated.
SUB_KERNELS = ("::sub_large", "::sub_large_dword", "::sub_large_ref_val", "::sub_dword")


def _argroot(t):
    from .c17b import strip_bb
    t = strip_bb(t)
    while isinstance(t, tuple):
        if t[0] in ("ref", "refmut", "place"):
            t = strip_bb(t[1])
        elif t[0] == "cast":
            t = strip_bb(t[2])
        elif t[0] == "call" and t[2]:
            t = strip_bb(t[2][0])
        else:
            break
    return t[1] if isinstance(t, tuple) and t[0] == "arg" else None


def r01_5(res, P, cfgname, rid="R01.5"):
    from . import mir, sym
    res.rule(rid, "signed subtraction kernels: the result of an unsigned subtraction with swapped operands is negated, an unswapped one is not (a - b = -(b - a))")
    n = 0
    for f in P.fns("dashu_int"):
        if "add_ops::repr_signed" not in f["p"] or not f.get("mir") or f.get("kind") == "Closure":
            continue
        S = sym.Sym(f)
        du = mir.defuse_of(f["mir"])
        k = 0
        for (bb, idx, node) in du.defs.get(0, []):
            if idx == "t":
                t = ("call", mir.callee_path(node) or "?", tuple(S.operand(a) for a in node["a"]))
                sp = node.get("sp", "")
            else:
                t = S.rvalue(node["rv"])
                sp = node.get("sp", "")
            negated = False
            x = t
            # peel neg / with_sign(.., Negative)
            while isinstance(x, tuple) and x[0] == "call":
                if x[1].endswith("Repr::neg") and x[2]:
                    negated = not negated
                    x = x[2][0]
                elif x[1].endswith("Repr::with_sign") and len(x[2]) == 2 and "Negative" in sym.term_str(x[2][1], 80):
                    negated = not negated
                    x = x[2][0]
                else:
                    break
            if not (isinstance(x, tuple) and x[0] == "call" and x[1].endswith(SUB_KERNELS) and "add_ops" in x[1] and len(x[2]) == 2):
                continue
            r0, r1 = _argroot(x[2][0]), _argroot(x[2][1])
            if r0 is None or r1 is None or r0 == r1:
                continue
            k += 1
            n += 1
            swapped = r0 > r1
            key = "%s return #%d (%s)" % (f["p"], k, x[1].rsplit("::", 1)[-1])
            if swapped == negated:
                res.ok(rid, cfgname, key, sample=dict(function=f["p"], kernel=x[1].rsplit("::", 1)[-1], swapped=swapped, negated=negated))
            else:
                res.fail(rid, cfgname, key, "%s returns %s(%s operands)%s: a - b computed from b - a must be negated, and only then — the result has the wrong sign for the operand shapes that reach this arm" % (
                    f["p"], x[1].rsplit("::", 1)[-1], "swapped" if swapped else "unswapped", " negated" if negated else " without negation"), mir.span_loc(sp))
    res.floor(rid, cfgname, n, 14, "subtraction-kernel results returned by the signed kernels")


LEVEL = LEVEL + ' Also (R19.2, shared) no arithmetic step of the integer kernels sits inside a debug assertion.'
TECHNIQUE = 'static analysis of MIR: path-sensitive use-of-result rule (carry/borrow consumed on every path), abstract evaluation of dispatcher and estimator bodies over all length classes, finite sign tables (FDT), debug-region effect analysis'
LEVEL = LEVEL + ' (R01.4) push_resizing, which skips a zero word, is never directly followed by another positional append on the same buffer.'
LEVEL = LEVEL + ' (R01.5) in the signed add/sub kernel the operands are swapped exactly on the paths where the result sign is negated.'


# ---------------------------------------------------------------------------------------------
# R01.6  The word-level carry primitives (arch::*::add::add_with_carry / sub_with_borrow — the x86 intrinsics
# or the portable two-step form, whichever this configuration selects): the returned flag must collect the
# overflow of *every* word addition / subtraction of the body, the carry-in must reach both results, and no
# step may be a wrapping / unchecked one (that is a carry dropped silently: MAX + 0 + 1).
CARRY_PRIMS = ("add_with_carry", "sub_with_borrow")
_FLAGGED = ("overflowing_add", "overflowing_sub", "carrying_add", "borrowing_sub")
_INTRIN = ("_addcarry_u", "_subborrow_u", "_addcarryx_u")
_SILENT = ("wrapping_add", "wrapping_sub", "unchecked_add", "unchecked_sub", "saturating_add", "saturating_sub",
           "wrapping_neg", "checked_add", "checked_sub")


def _slice_with_out_params(body, du, start):
    """backward slice that also follows `&mut local` out-parameters (the x86 intrinsics write the sum through one)"""
    from . import mir
    roots = {start}
    while True:
        sl, _ = mir.backward_slice(body, sorted(roots))
        # locals that are (re)borrows of a local in the slice
        refs = set()
        grew = True
        while grew:
            grew = False
            for i, j, st in mir.iter_stmts(body):
                if st["k"] == "as" and st["rv"]["k"] == "ref" and st["rv"].get("m") == "mut":
                    tgt = st["rv"]["p"]["l"]
                    if (tgt in sl or tgt in refs) and st["p"]["l"] not in refs:
                        refs.add(st["p"]["l"])
                        grew = True
        new = set()
        for bb, t, fr in mir.iter_calls(body):
            used = set()
            mir.walk_places(t["a"], lambda p: used.add(p["l"]))
            if used & refs:
                new |= used
        if new <= roots | sl:
            return sl
        roots |= new


def r01_6(res, P, cfgname, rid="R01.6"):
    from . import mir
    res.rule(rid, "word carry primitives: the returned flag depends on the overflow flag of every word addition / subtraction in the body, "
                  "the carry-in reaches value and flag, and no step is a wrapping / unchecked operation")
    n = 0
    for f in P.fns("dashu_int"):
        if f.get("name") not in CARRY_PRIMS or "::arch::" not in f["p"] or not f.get("mir") or f.get("kind") == "Closure":
            continue
        body = f["mir"]
        du = mir.defuse_of(body)
        n += 1
        key = f["p"]
        wty = body["locals"][1]["ty"]
        # the returned pair: one aggregate (possibly through a local), or the result of a flag-producing call
        root, hops = 0, 0
        while hops < 4:
            ds = du.defs.get(root, [])
            if len(ds) == 1 and ds[0][1] != "t" and ds[0][2]["k"] == "as" and ds[0][2]["rv"]["k"] == "use" and mir.op_local(ds[0][2]["rv"]["a"]) is not None:
                root = mir.op_local(ds[0][2]["rv"]["a"])
                hops += 1
            else:
                break
        ds = du.defs.get(root, [])
        direct = None
        if len(ds) == 1 and ds[0][1] != "t" and ds[0][2]["k"] == "as" and ds[0][2]["rv"]["k"] == "agg" and len(ds[0][2]["rv"].get("ops", [])) == 2:
            vloc, floc = (mir.op_local(o) for o in ds[0][2]["rv"]["ops"])
            if vloc is None or floc is None:
                res.fail(rid, cfgname, key, "%s returns a constant component" % f["p"], mir.span_loc(f["sp"]))
                continue
            fslice = _slice_with_out_params(body, du, floc)
            vslice = _slice_with_out_params(body, du, vloc)
        elif len(ds) == 1 and ds[0][1] == "t" and (mir.callee_path(ds[0][2]) or "").rsplit("::", 1)[-1] in _FLAGGED:
            # `a.overflowing_sub(x)` returned as it is: value and flag are those of this one step
            direct = root
            fslice = vslice = _slice_with_out_params(body, du, root)
        else:
            # several returns / another construction: not decided (counted, so that the anchor stays visible)
            res.ok(rid, cfgname, key, nontrivial=False, sample=dict(function=f["p"], note="result not built as one pair: form not decided"))
            continue
        bad = []
        steps = 0
        for bb, t, fr in mir.iter_calls(body):
            cp = fr and (fr.get("rp") or fr["p"]) or ""
            last = cp.rsplit("::", 1)[-1]
            d = t["d"]["l"]
            if last in _SILENT and ("<impl %s>" % wty) in cp:
                bad.append("%s drops a possible carry" % cp)
            elif last in _FLAGGED:
                steps += 1
                flags = [node["p"]["l"] for (b2, idx, node) in du.uses.get(d, []) if idx != "t" and node["k"] == "as" and node["rv"]["k"] == "use"
                         and any(pr.get("k") == "f" and pr.get("i") == 1 for pr in (mir.op_place(node["rv"]["a"]) or {}).get("p", []))]
                if d != direct and not any(l in fslice for l in flags):
                    bad.append("the overflow flag of %s does not reach the returned flag" % cp)
            elif any(last.startswith(x) for x in _INTRIN):
                steps += 1
                if d not in fslice:
                    bad.append("the carry-out of %s does not reach the returned flag" % cp)
        for i, j, st in mir.iter_stmts(body):
            if st["k"] == "as" and st["rv"]["k"] == "bin" and st["rv"]["op"] in ("Add", "Sub", "AddUnchecked", "SubUnchecked", "AddWithOverflow", "SubWithOverflow"):
                l = mir.op_local(st["rv"]["a"])
                # arithmetic in a wider type (a double-word sum whose high part is the flag) is a different, legitimate form
                if l is not None and body["locals"][l]["ty"] == wty:
                    bad.append("plain %s on words (overflow either panics or wraps silently; the primitive must report it in the flag)" % st["rv"]["op"])
        if 3 not in fslice or 3 not in vslice:
            bad.append("the carry-in (third argument) does not reach %s" % ("the returned flag" if 3 not in fslice else "the returned value"))
        if 1 not in fslice or 2 not in fslice:
            bad.append("an operand does not reach the returned flag")
        if bad:
            res.fail(rid, cfgname, key, "%s: %s" % (f["p"], "; ".join(bad)), mir.span_loc(f["sp"]))
        else:
            res.ok(rid, cfgname, key, sample=dict(function=f["p"], flag_steps=steps))
    res.floor(rid, cfgname, n, 2, "carry primitives of the selected arch back-end")
LEVEL = LEVEL + ' (R01.6) the word carry primitives of the selected arch back-end fold the overflow of every step and the carry-in into the returned flag, with no wrapping step.'
TECHNIQUE = TECHNIQUE + '; flag-completeness dataflow of the word carry primitives (every overflow flag and the carry-in reach the returned flag)'
