"""C19 — independence of word size, features, debug assertions, serialisation medium.
Decides: every claimed structural rule holds in the 32-bit-word, no_std and all-features builds
too; debug-only code is effect-free; serialisers are word-size independent; deserialisers
construct only through validating constructors; cfg-sibling item sets agree.
Not decided: numeric equality of results across word sizes."""
import re
from collections import defaultdict

from . import mir, sym, guards
from .mir import span_loc

PROP = "C19"
CONFIGS = {"quick": ["w32", "nostd", "feat", "dbg"], "thorough": ["dbg", "rel", "feat", "w32", "nostd"]}
LEVEL = ("Static obligations in every build configuration: (R19.1) the structural rules of C04/C05/C13/C15/C16/C17 "
         "are re-evaluated on the facts of the 32-bit-word build (--cfg force_bits=\"32\"), the no_std build and "
         "the all-features build and must give the same verdict; (R19.2) statements expanded from "
         "debug_assert*! neither assign to, nor mutably borrow, a place that outlives the assertion; (R19.3) "
         "no unsafe operation is protected only by a guard that vanishes in release (= R17.5/R17.6, release "
         "facts); (R19.4) Serialize impls hand the serializer only bytes from words_to_le_bytes, strings, "
         "isize/usize and nested dashu types, and Deserialize/Visitor code builds numbers only through the "
         "validating constructors; (R19.5) the public item sets of the std / no_std and 64 / 32-bit builds "
         "agree. Numeric equality of results across word sizes is not decided.")
TRUSTED = ["rustc MIR for each configuration (the 32-bit-word code is type-checked on this 64-bit host via force_bits)",
           "the rule modules re-used here", "reviewed tables in rules/c19.py"]

SERDE_FILES = ("third_party/serde.rs",)
NUM_ADTS = ("dashu_int::ubig::UBig", "dashu_int::ibig::IBig", "dashu_int::repr::Repr", "dashu_ratio::repr::Repr",
            "dashu_ratio::rbig::RBig", "dashu_ratio::rbig::Relaxed", "dashu_float::repr::Repr", "dashu_float::fbig::FBig")
# struct literals of number types allowed inside serde.rs, with the rule that validates them
SERDE_LITERAL_OK = {
    "dashu_ratio::third_party::serde::repr_from_parts": "zero-denominator test (R04.2)",
    "dashu_float::third_party::serde::fbig_from_parts": "digits <= precision test (R05.6)",
}
SERIALIZER_OK = ("is_human_readable", "collect_str", "serialize_bytes", "serialize_str", "serialize_struct", "serialize_field",
                 "end", "serialize_none", "serialize_unit")
FIELD_TYPES_OK = ("dashu_int::ibig::IBig", "dashu_int::ubig::UBig", "isize", "usize", "dashu_float::repr::Repr<", "dashu_ratio::repr::Repr",
                  "&dashu_int::ibig::IBig", "&dashu_int::ubig::UBig")


def run(res, programs, tier):
    res.rule("R19.1", "every structural rule of the other properties gives the same verdict in the dbg, rel, w32 (32-bit words), nostd and feat configurations")
    res.rule("R19.2", "debug_assert*! expansions have no effects: no assignment to / &mut of a place that outlives the assertion")
    res.rule("R19.4", "Serialize: only bytes from words_to_le_bytes / strings / isize / usize / nested dashu types reach the serializer; Deserialize: numbers are built only through validating constructors")
    res.rule("R19.5", "public item sets agree between std/no_std and 64/32-bit builds (cfg-sibling agreement)")
    # ---- R19.1: re-run the structural rules on the configurations the other quick checks skip
    from . import c17, c13, c05, c04, c16, c15
    sub = [p for p in programs if (tier == "thorough" or p.config in ("w32", "nostd"))]
    before = set(res.violations)
    c17.run(res, sub, tier)
    c13.run(res, sub, tier)
    c04.run(res, [p for p in sub], tier)
    c15.run(res, sub, tier)
    for P in sub:
        if "dashu_int" in P.units:
            res.rule("R05.1", "(shared with C05)")
            res.rule("R05.2", "(shared with C05)")
            c05._r05_1(res, P, P.name)
            c05._r05_2(res, P, P.name)
        if "dashu_float" in P.units:
            res.rule("R05.4a", "(shared with C05)")
            res.rule("R05.4b", "(shared with C05)")
            res.rule("R05.6", "(shared with C05)")
            c05._r05_4(res, P, P.name)
            c05._r05_6(res, P, P.name)
    for P in programs:
        if P.config == "feat" and P not in sub and "dashu_float" in P.units:
            # the deserialisers live in the all-features build only
            res.rule("R05.4a", "(shared with C05)")
            res.rule("R05.4b", "(shared with C05)")
            res.rule("R05.6", "(shared with C05)")
            c05._r05_4(res, P, P.name)
            c05._r05_6(res, P, P.name)
    for rid, txt in (("R16.1a", "(shared with C16)"), ("R16.1b", "(shared with C16)"), ("R16.1c", "(shared with C16)"), ("R16.4", "(shared with C16)")):
        res.rule(rid, txt)
    for P in sub:
        if "dashu_float" in P.units:
            c16._r16_1a(res, P, P.name)
            c16._r16_1b(res, P, P.name)
        if "dashu_int" in P.units:
            c16._r16_1c(res, P, P.name)
        c16._r16_4(res, P, P.name)
    from . import c06
    res.rule("R06.4", "(shared with C06) f32 / f64 sibling functions have the same structure")
    for P in sub:
        if "dashu_int" in P.units and "dashu_float" in P.units and P.role == "main":
            c06._r06_4(res, P, P.name)
    from . import polarity
    for P in sub:
        if "dashu_float" in P.units and "dashu_ratio" in P.units and P.role == "main":
            polarity.rule(res, P, P.name, "R10.4")
            from . import halftest
            halftest.rule(res, P, P.name, "R10.5")
            from . import pow2base
            pow2base.rule(res, P, P.name, "R10.8")
    _r19_6(res, programs)
    from . import c01
    for P in programs:
        if "dashu_int" in P.units:
            c01.r01_6(res, P, P.name)      # shared: the portable back-end exists only in the force_bits / non-x86 configurations
    cfgs_seen = sorted({p.name for p in sub})
    new = set(res.violations) - before
    known = _known_keys()
    for fk in sorted(new):
        cs = res.violation_configs.get(fk, set())
        if fk in known:
            continue
        # re-key under R19.1 so that the report says which configuration disagrees
    for rid, r in list(res.rules.items()):
        if rid.startswith("R19"):
            continue
        for cfgname in cfgs_seen:
            n = r["per_config"].get(cfgname, 0)
            key = "%s evaluated in %s" % (rid, cfgname)
            bad = [fk for fk in new if fk.startswith(rid + "|") and cfgname in res.violation_configs.get(fk, set())]
            if n == 0 and not rid.startswith(("R04", "R05.4", "R05.6", "R16.1a", "R16.1b")):
                pass
            if bad:
                continue
            if n:
                res.ok("R19.1", cfgname, key, sample=dict(rule=rid, configuration=cfgname, instances=n))
    # ---- the rules of this property proper
    for P in programs:
        _r19_2(res, P, P.name)
        _r19_4(res, P, P.name)
    _r19_5(res, programs)


def _known_keys():
    from .engine import load_known
    return {k["key"] for k in load_known().get("findings", [])}


# ---- R19.2 ----------------------------------------------------------------------------------------
DEBUG_MACROS = ("debug_assert", "debug_assert_eq", "debug_assert_ne")


def _in_debug_assert(sp):
    return any(m in DEBUG_MACROS for m in mir.span_macros(sp))


def debug_regions(body):
    """blocks that execute only when debug assertions are on: reachable from the true edge of a
    `cfg!(debug_assertions)` switch (a constant switch whose discriminant comes from the
    debug_assert! expansion) and not from its false edge"""
    out = set()
    consts = mir._const_locals(body)
    for i, bb in enumerate(body["bbs"]):
        t = bb["t"]
        if t["k"] != "switch":
            continue
        l = mir.op_local(t["d"])
        is_dbg = _in_debug_assert(t.get("sp", ""))
        if l is not None:
            for st in bb["s"]:
                if st["k"] == "as" and st["p"]["l"] == l and any(m in ("$crate::cfg", "cfg") for m in mir.span_macros(st.get("sp", ""))) and _in_debug_assert(st.get("sp", "")):
                    is_dbg = True
        if not is_dbg or (l is not None and l not in consts and mir.op_const(t["d"]) is None):
            continue
        if len(t["ts"]) != 1:
            continue
        else_bb = t["ts"][0][1]      # value 0 (false) target
        then_bb = t["o"]
        def reach(src):
            seen = {src}
            st_ = [src]
            while st_:
                x = st_.pop()
                for _lab, y in mir.term_succs(body["bbs"][x]["t"]):
                    if y not in seen:
                        seen.add(y)
                        st_.append(y)
            return seen
        out |= reach(then_bb) - reach(else_bb)
    return out


def _r19_2(res, P, cfgname):
    n = 0
    for f in P.fns():
        if f["crate"] == "dashu_macros":
            continue
        body = f["mir"]
        region = debug_regions(body)
        if not region:
            continue
        n += 1
        du = mir.defuse_of(body)
        args = set(range(1, body["argc"] + 1))
        bad = []
        # locals defined outside the debug-only region (they outlive the assertion)
        outside_defs = set()
        for l, defs in du.defs.items():
            for (b2, idx, node) in defs:
                if b2 not in region:
                    outside_defs.add(l)
        outside_defs |= args
        for i in sorted(region):
            blk = body["bbs"][i]
            for s in blk["s"]:
                if s["k"] != "as":
                    continue
                tgt = s["p"]
                through_ptr = any(e.get("k") == "deref" for e in tgt.get("p", []))
                if (tgt["l"] in outside_defs and (tgt["l"] in args or through_ptr or any(v["p"]["l"] == tgt["l"] for v in body.get("vars", [])))) and not _is_flag(body, tgt["l"]):
                    bad.append(("assignment to a place that outlives the assertion", span_loc(s["sp"])))
                rv = s["rv"]
                if rv["k"] in ("ref", "rawptr") and str(rv.get("m", "")).lower().startswith("mut"):
                    root = rv["p"]["l"]
                    deref = any(e.get("k") == "deref" for e in rv["p"].get("p", []))
                    if root in outside_defs and (root in args or deref or any(v["p"]["l"] == root for v in body.get("vars", []))):
                        bad.append(("&mut borrow of a place that outlives the assertion", span_loc(s["sp"])))
        key = "debug-only regions of " + f["p"]
        if bad:
            res.fail("R19.2", cfgname, key, "debug-assertion code in %s has an effect that survives the assertion (%s): results would differ between debug and release builds" % (f["p"], bad[0][0]), bad[0][1])
        else:
            res.ok("R19.2", cfgname, key, nontrivial=True)
    if P.units.get("dashu_int") is not None and P.units["dashu_int"].debug_assertions:
        res.floor("R19.2", cfgname, n, 100, "functions with debug-only regions")


def _r19_6(res, programs):
    """R19.6: the width of a machine word comes from `Word` (which `force_bits` / the target selects), never from
    the pointer width.  `usize::BITS` may appear only inside the impls *for usize*: everywhere else it equals
    Word::BITS on the build the tests run and differs on a 32-bit-word build of a 64-bit host."""
    import json as _json
    res.rule("R19.6", "usize::BITS (pointer width) is referenced only inside impls for usize; word-size arithmetic takes its width from Word")
    for P in programs:
        n = 0
        for f in P.fns():
            if f["crate"] not in ("dashu_int", "dashu_float", "dashu_ratio", "dashu_base") or not f.get("mir"):
                continue
            n += 1
            if "impl usize>::BITS" not in _json.dumps(f["mir"]):
                continue
            key = "usize::BITS in " + f["p"]
            if " for usize>" in f["p"] or f["p"].startswith("<usize as "):
                res.ok("R19.6", P.name, key, sample=dict(function=f["p"], note="impl for usize"))
            else:
                res.fail("R19.6", P.name, key, "%s uses usize::BITS: with 32-bit words on a 64-bit host (force_bits=\"32\") this is 64 while a Word has 32 bits, so word / bit offsets are computed for the wrong word size" % f["p"], span_loc(f["sp"]))
        res.floor("R19.6", P.name, n, 500, "function bodies scanned for usize::BITS")
        # named constants that claim to be the word width must equal the Word width of this configuration
        ref = (P.consts.get("dashu_int::primitive::WORD_BITS") or {}).get("v")
        if ref is not None:
            for d, c in P.consts.items():
                nm = d.rsplit("::", 1)[-1]
                if d.split("::", 1)[0] in ("dashu_int", "dashu_float", "dashu_ratio", "dashu_base") and "WORD_BITS" in nm and "DWORD" not in nm and "DOUBLE" not in nm:
                    key = "const " + d
                    if str(c.get("v")) == str(ref):
                        res.ok("R19.6", P.name, key, nontrivial=(d != "dashu_int::primitive::WORD_BITS"), sample=dict(const=d, value=c.get("v"), word_bits=ref))
                    else:
                        res.fail("R19.6", P.name, key, "constant %s = %s in this configuration, but a Word has %s bits: a word width taken from the pointer size (usize::BITS) instead of Word::BITS" % (d, c.get("v"), ref))


def shared_r19_2(res, programs):
    """R19.2 evaluated for another property: an arithmetic step moved into a debug assertion makes
    release builds compute something else (necessary for C01 / C02 / C13 / C15 in release builds)"""
    res.rule("R19.2", "(shared with C19) debug_assert*! expansions have no effects: no assignment to / &mut of a place that outlives the assertion")
    for P in programs:
        u = P.units.get("dashu_int")
        if u is not None and u.debug_assertions and P.role == "main":
            _r19_2(res, P, P.name)


def _is_flag(body, l):
    return body["locals"][l]["ty"] == "bool" and not any(v["p"]["l"] == l for v in body.get("vars", []))


# ---- R19.4 ----------------------------------------------------------------------------------------

def _in_serde(f):
    return mir.span_file(f["sp"]).endswith(SERDE_FILES)


def _r19_4(res, P, cfgname):
    fns = [f for f in P.fns() if _in_serde(f)]
    if not fns:
        return        # serde feature not in this configuration
    n = 0
    for f in fns:
        path = f["p"]
        S = None
        # (a) struct literals of number types
        for i, j, s in mir.iter_stmts(f["mir"]):
            if s["k"] == "as" and s["rv"]["k"] == "agg" and s["rv"].get("adt") in NUM_ADTS:
                n += 1
                key = "literal %s in %s" % (s["rv"]["adt"], path)
                if path in SERDE_LITERAL_OK:
                    res.ok("R19.4", cfgname, key, sample=dict(function=path, validated_by=SERDE_LITERAL_OK[path]))
                elif s["rv"]["adt"] in ("dashu_ratio::rbig::RBig", "dashu_ratio::rbig::Relaxed") and _wraps_validated(P, f, s):
                    res.ok("R19.4", cfgname, key, sample=dict(function=path, note="wraps deserialize_repr(..).reduce()/reduce2()"))
                else:
                    res.fail("R19.4", cfgname, key, "deserialisation code in %s builds %s by a struct literal instead of a validating constructor (malformed input must be an error, not a non-canonical value)" % (path, s["rv"]["adt"]), span_loc(s["sp"]))
        # (b) serializer calls
        if f.get("trait", "").startswith("serde_core::ser::Serialize") or f.get("trait", "").startswith("serde::ser::Serialize"):
            for bb, t, fr in mir.iter_calls(f["mir"]):
                cp = fr and fr["p"]
                if not cp or not ("ser::Serializer::" in cp or "ser::SerializeStruct::" in cp):
                    continue
                n += 1
                meth = cp.rsplit("::", 1)[1]
                key = "%s calls %s" % (path, meth)
                if meth not in SERIALIZER_OK:
                    res.fail("R19.4", cfgname, key, "Serialize impl %s calls Serializer::%s: only bytes, strings and nested fields are word-size independent" % (path, meth), span_loc(t["sp"]))
                    continue
                if meth == "serialize_field":
                    g = fr.get("g", [])
                    fty = g[1] if len(g) > 1 else "?"
                    if not fty.startswith(FIELD_TYPES_OK):
                        res.fail("R19.4", cfgname, key + "|" + fty, "Serialize impl %s serializes a field of type %s (only isize/usize/nested dashu numbers are allowed; Word-typed data depends on the build)" % (path, fty), span_loc(t["sp"]))
                        continue
                if meth == "serialize_bytes":
                    S = S or sym.Sym(f)
                    start = []
                    mir.walk_places(t["a"][1], lambda p: start.append(p["l"]))
                    locs, calls = mir.backward_slice(f["mir"], start)
                    srcs = [mir.callee_path(f["mir"]["bbs"][c]["t"]) or "" for c in calls]
                    ok = any("words_to_le_bytes" in x or x.endswith("::to_le_bytes") for x in srcs) or not srcs
                    if not ok:
                        res.fail("R19.4", cfgname, key + "|source", "bytes serialized in %s do not come from words_to_le_bytes / to_le_bytes (sources: %s)" % (path, srcs[:3]), span_loc(t["sp"]))
                        continue
                res.ok("R19.4", cfgname, key)
        # (c) visit_str delegates to the run-time parsers
        if f.get("name") == "visit_str":
            n += 1
            cal = [(fr.get("rp") or fr["p"]) for bb, t, fr in mir.iter_calls(f["mir"]) if fr]
            key = "%s delegates to a parser" % path
            if any("from_str" in c for c in cal):
                res.ok("R19.4", cfgname, key, sample=dict(function=path, parser=[c for c in cal if "from_str" in c][0]))
            else:
                res.fail("R19.4", cfgname, key, "%s does not delegate to a from_str* parser" % path, span_loc(f["sp"]))
        # (d) visit_bytes goes through from_le_bytes
        if f.get("name") == "visit_bytes":
            n += 1
            cal = [(fr.get("rp") or fr["p"]) for bb, t, fr in mir.iter_calls(f["mir"]) if fr]
            key = "%s goes through from_le_bytes" % path
            if any(c.endswith("::from_le_bytes") for c in cal):
                res.ok("R19.4", cfgname, key)
            else:
                res.fail("R19.4", cfgname, key, "%s does not build the integer through from_le_bytes" % path, span_loc(f["sp"]))
    res.floor("R19.4", cfgname, n, 25, "serde obligations")


def _wraps_validated(P, f, s):
    S = sym.Sym(f)
    t = S.operand(s["rv"]["ops"][0])
    return t[0] == 'call' and t[1] in ("dashu_ratio::repr::Repr::reduce", "dashu_ratio::repr::Repr::reduce2")


# ---- R19.5 ----------------------------------------------------------------------------------------

def _pub_items(P, crate):
    """public surface: trait impls (trait, self type) and public inherent functions; word-sized
    primitive names are unified so that 64- and 32-bit builds compare equal"""
    out = set()
    W = lambda x: re.sub(r"\bu(32|64|128)\b", "W", x)
    u = P.units[crate]
    for i in u.impls:
        if i.get("trait"):
            out.add(W("impl %s for %s" % (i["trait"], i["self"])))
    for f in P.fns(crate):
        if f.get("vis") == "Public" and f["kind"] != "Closure" and not f.get("trait"):
            out.add(W(f["p"]))
    return out


# items that legitimately exist only with std / default features (reviewed)
STD_ONLY = ("num_order", "NumOrd", "NumHash", "with_float", "dashu_float", "std::error", "core::error::Error", "third_party")


def _r19_5(res, programs):
    by = {p.name: p for p in programs}
    pairs = [("dbg", "w32", "64-bit vs 32-bit words"), ("feat", "w32", "64-bit vs 32-bit words"), ("dbg", "nostd", "std vs no_std")]
    done = False
    for a, b, what in pairs:
        if a not in by or b not in by:
            continue
        A, B = by[a], by[b]
        for crate in ("dashu_base", "dashu_int", "dashu_float", "dashu_ratio"):
            if crate not in A.units or crate not in B.units:
                continue
            ia, ib = _pub_items(A, crate), _pub_items(B, crate)
            fa, fb = set(A.units[crate].features), set(B.units[crate].features)
            if what.startswith("std"):
                # no_std drops default features: only std-/num-order-gated items may disappear
                missing = {x for x in (ia - ib) if not any(t in x for t in STD_ONLY)}
                extra = ib - ia
            else:
                if fa != fb:
                    continue
                missing, extra = ia - ib, ib - ia
            done = True
            key = "%s: public items of %s (%s vs %s)" % (what, crate, a, b)
            if not missing and not extra:
                res.ok("R19.5", "%s/%s" % (a, b), key, sample=dict(crate=crate, items=len(ia)))
            else:
                res.fail("R19.5", "%s/%s" % (a, b), key, "public item sets of %s differ between %s and %s: only in %s %s; only in %s %s" % (crate, a, b, a, sorted(missing)[:4], b, sorted(extra)[:4]))
    if not done:
        res.anchor("R19.5", "-", "a pair of configurations to compare")


LEVEL = LEVEL + ' Also the bound-polarity and half-test pairing rules are re-evaluated in the no_std and 32-bit configurations.'
TECHNIQUE = 're-evaluation of every structural rule on the MIR of five build configurations (debug, release, 32-bit words, no_std, all features); CFG-based debug-region effect analysis; serializer / deserializer who-may-construct rules; cfg-sibling agreement of public item and impl sets'
LEVEL = LEVEL + ' (R06.4, R10.5, R05.4a/R05.6 of the all-features build are re-evaluated here too.)'
LEVEL = LEVEL + ' (R19.6) usize::BITS is used only inside impls for usize, and every named *WORD_BITS* constant equals dashu_int::primitive::WORD_BITS, so no kernel takes the host pointer width for the word width.'
LEVEL = LEVEL + ' (R01.6, shared with C01) the carry primitives of the portable arch back-end (built only with force_bits or on non-x86 targets).'
