"""C16 — termination and documented panics only.  Decides guard placement on all paths, absence of
unreviewed panic edges behind parser entry points, justification of every conversion unwrap, and the
structurally decidable divergence shapes.  Not decided: termination of value-dependent loops,
arithmetic overflow on values."""
import json
import os
import re
from collections import defaultdict

from . import mir, sym, guards
from .mir import span_loc
from .c17b import strip_bb, strip_ref_ty

PROP = "C16"
CONFIGS = {"quick": ["dbg", "rel", "feat"], "thorough": ["dbg", "rel", "feat", "w32", "nostd"]}
LEVEL = ("Static obligations on all paths: (R16.1a) for every arithmetic entry point of dashu-float and each "
         "FBig/Repr operand, finiteness of that operand is asserted on every return path, directly or through "
         "a callee parameter with the same summary; (R16.1b) the unlimited-precision refusal dominates the "
         "rounding kernels of div/sqrt/exp/ln/powf/ulp; (R16.1c) every integer division entry reaches a "
         "zero-divisor test with a diverging edge; (R16.1d) every reviewed documented-panic site still exists "
         "behind a conditional edge, and ln/ln_1p have a domain guard before their series loop; (R16.2) the "
         "panic edges reachable in parser code are exactly the reviewed ones and no overflow-checked "
         "arithmetic depends on a parsed integer; (R16.3) every ConversionError unwrap in the primitive-operand "
         "forms belongs to a group with a valid range argument; (R16.4) no loop without a non-panicking exit, "
         "no recursion cycle without a base path. Termination of value-dependent loops and overflow on "
         "values are not decided.")
TRUSTED = ["rustc MIR and callee resolution", "reviewed tables: tables/panic_sites.json, rules/c16.py (parser edges, unwrap groups)"]

VERIF = os.path.dirname(os.path.dirname(os.path.abspath(__file__)))
FREPR = "dashu_float::repr::Repr<"
FBIG = "dashu_float::fbig::FBig<"


def is_float_ty(t):
    t = strip_ref_ty(t)
    return t.startswith(FREPR) or t.startswith(FBIG)


ASSERTS = {"dashu_float::error::assert_finite": [0], "dashu_float::error::assert_finite_operands": [0, 1]}
PASS_THROUGH = ('core::mem::take', 'core::mem::replace')


def root_arg(t):
    t = strip_bb(t)
    while isinstance(t, tuple):
        if t[0] in ('ref', 'refmut'):
            t = t[1]
        elif t[0] == 'place':
            t = t[1]
        elif t[0] == 'call' and t[2] and (t[1] in PASS_THROUGH or t[1].endswith('as core::clone::Clone>::clone')
                                          or t[1].endswith(('::repr', '::into_repr'))):
            t = t[2][0]
        else:
            break
    return t[1] if isinstance(t, tuple) and t[0] == 'arg' else None


ARITH_TRAITS = ("core::ops::arith::Add", "core::ops::arith::Sub", "core::ops::arith::Mul", "core::ops::arith::Div",
                "core::ops::arith::Rem", "core::ops::bit::Shl", "core::ops::bit::Shr", "dashu_base::ring::DivEuclid",
                "dashu_base::ring::RemEuclid", "dashu_base::ring::DivRemEuclid", "dashu_base::math::Inverse",
                "dashu_base::math::SquareRoot", "core::iter::traits::accum::Sum", "core::iter::traits::accum::Product")
ARITH_FILES = ('round_ops.rs', 'exp.rs', 'log.rs', 'mul.rs', 'add.rs', 'div.rs', 'root.rs')


def run(res, programs, tier):
    res.rule("R16.1a", "finiteness of every FBig/Repr operand of every float arithmetic entry point is asserted on every return path (operand-sensitive, interprocedural)")
    res.rule("R16.1b", "assert_limited_precision / panic_unlimited_precision dominates the inexact kernels (repr_div, sqrt, exp, ln, powf, powi<0, ulp, lossy convert_base)")
    res.rule("R16.1c", "every integer Div/Rem/DivRem/Euclid entry of UBig/IBig and ConstDivisor::new reaches a zero-divisor test with a diverging edge on every return path")
    res.rule("R16.1d", "every reviewed documented-panic call site still exists behind a conditional edge; ln/ln_1p test their domain before the series loop")
    res.rule("R16.2", "panic edges reachable in parser code from the parser entry points are reviewed; str slicing bounds come from find/rfind; no checked arithmetic on parsed integers")
    res.rule("R16.3", "every Result<_, ConversionError>::unwrap of the primitive-operand macro forms belongs to a group with a valid range argument; other unwrap/expect sites match the frozen inventory")
    res.rule("R16.4", "no natural loop whose every exit leads to a panic block; no recursive cycle without a path to Return avoiding the cycle")
    from . import intalg
    intalg.r01_1(res, programs, "R01.1")      # shared with C01: a dropped borrow is a lost `UBig result must not be negative` panic
    for P in programs:
        cfgname = P.name
        if "dashu_float" in P.units:
            _r16_5(res, P, cfgname)
            _r16_1a(res, P, cfgname)
            _r16_1b(res, P, cfgname)
        if "dashu_int" in P.units:
            _r16_1c(res, P, cfgname)
        _r16_1d(res, P, cfgname)
        _r16_2(res, P, cfgname)
        _r16_3(res, P, cfgname)
        _r16_4(res, P, cfgname)


# ---------------------------------------------------------------------------------------------------

def _r16_1a(res, P, cfgname):
    fns = [f for f in P.fns('dashu_float') if f['kind'] != 'Closure']
    syms = {}

    def S(f):
        if f['d'] not in syms:
            syms[f['d']] = sym.Sym(f)
        return syms[f['d']]
    # pre-compute per call site the (callee, arg index -> root param)
    sites = {}
    for f in fns:
        lst = []
        for bb, t, fr in mir.iter_calls(f['mir']):
            cp = fr and (fr.get('rp') or fr['p'])
            if not cp:
                continue
            roots = [root_arg(S(f).operand(a)) for a in t['a']]
            if any(r is not None for r in roots):
                lst.append((bb, cp, roots))
        sites[f['d']] = lst
    CHK = set()
    changed = True
    while changed:
        changed = False
        for f in fns:
            for k, ty in enumerate(f.get('inputs', []), 1):
                if not is_float_ty(ty) or (f['p'], k) in CHK:
                    continue
                blocks = set()
                for bb, cp, roots in sites[f['d']]:
                    for j, r in enumerate(roots):
                        if r == k and ((cp in ASSERTS and j in ASSERTS[cp]) or (cp, j + 1) in CHK):
                            blocks.add(bb)
                if blocks and mir.cfg_of(f['mir']).must_pass(blocks):
                    CHK.add((f['p'], k))
                    changed = True
    n = 0
    for f in fns:
        fl = [k for k, ty in enumerate(f.get('inputs', []), 1) if is_float_ty(ty)]
        if not fl:
            continue
        tr = f.get('trait', '')
        file = mir.span_file(f['sp']).split('/')[-1]
        is_entry = tr.startswith(ARITH_TRAITS) and 'dashu_base::sign::Sign' not in tr + f.get('self_ty', '')
        if not tr and f.get('vis') == 'Public' and file in ARITH_FILES:
            is_entry = True
        if not tr and f.get('vis') == 'Public' and file == 'convert.rs' and f['name'] == 'to_int':
            is_entry = True
        if not is_entry:
            continue
        for k in fl:
            n += 1
            key = "%s|operand %d" % (f['p'], k)
            if (f['p'], k) in CHK:
                res.ok("R16.1a", cfgname, key, sample=dict(function=f['p'], operand=k, type=f['inputs'][k - 1]))
            else:
                res.fail("R16.1a", cfgname, key,
                         "%s: finiteness of operand %d (%s) is not asserted on every return path (arithmetic on infinities must panic, not return a number)" % (f['p'], k, f['inputs'][k - 1]),
                         span_loc(f['sp']))
    res.floor("R16.1a", cfgname, n, 640, "float arithmetic (entry point, operand) pairs")


LIMITED = {
    "dashu_float::div::<impl dashu_float::repr::Context<R>>::repr_div": "all",
    "dashu_float::root::<impl dashu_float::repr::Context<R>>::sqrt": "all",
    "dashu_float::exp::<impl dashu_float::repr::Context<R>>::exp_internal": "all",
    "dashu_float::log::<impl dashu_float::repr::Context<R>>::ln_internal": "all",
    "dashu_float::exp::<impl dashu_float::repr::Context<R>>::powf": "all",
    "dashu_float::exp::<impl dashu_float::repr::Context<R>>::powi": "some",       # only for negative exponents
    "dashu_float::fbig::FBig::<R, B>::ulp": "all",
    "dashu_float::convert::<impl dashu_float::repr::Context<R>>::convert_base": "some",   # lossy branch only
}
PREC_HELPERS = {"dashu_float::error::assert_limited_precision", "dashu_float::error::panic_unlimited_precision"}
ROUNDERS = ("::repr_round", "::repr_round_ref", "::repr_round_sum", "::round_fract", "::round_ratio", "::round_low_part",
            "::with_precision", "::repr_div", "::ln", "::exp", "::exp_internal", "::ln_internal", "::inv", "::sqrt_rem")


def _r16_1b(res, P, cfgname):
    for path, mode in LIMITED.items():
        f = next((g for g in P.fns('dashu_float') if g['p'] == path), None)
        if f is None:
            res.anchor("R16.1b", cfgname, "fn " + path)
            continue
        cfg = mir.cfg_of(f['mir'])
        S = sym.Sym(f)
        blocks = set()
        for bb, t, fr in mir.iter_calls(f['mir']):
            cp = fr and (fr.get('rp') or fr['p'])
            if cp == "dashu_float::error::assert_limited_precision":
                blocks.add(bb)
        # explicit `if precision == 0 { panic_unlimited_precision() }`: the switch block is the guard
        for a, b, fact in S.edge_facts():
            if cfg.is_panic_block(b):
                for bb2, t, fr in mir.iter_calls(f['mir']):
                    if bb2 in cfg.reach_from(b) and fr and (fr.get('rp') or fr['p']) == "dashu_float::error::panic_unlimited_precision":
                        blocks.add(a)
        key = path
        if not blocks:
            res.fail("R16.1b", cfgname, key, "%s no longer refuses unlimited precision (no assert_limited_precision / panic_unlimited_precision)" % path, span_loc(f['sp']))
            continue
        if mode == "all":
            # the guard must be passed on every return path and dominate every rounding call
            ok = cfg.must_pass(blocks)
            late = []
            for bb, t, fr in mir.iter_calls(f['mir']):
                cp = fr and (fr.get('rp') or fr['p'])
                if cp and cp.startswith("dashu_float::") and cp.endswith(ROUNDERS) and not cfg.is_panic_block(bb):
                    if not any(cfg.dominates(g, bb) for g in blocks):
                        # a rounding call before the guard is fine only on paths that return exactly
                        late.append(cp)
            if ok and not late:
                res.ok("R16.1b", cfgname, key, sample=dict(function=path, guard_blocks=sorted(blocks)))
            elif not ok:
                res.fail("R16.1b", cfgname, key, "%s: some return path does not pass the unlimited-precision refusal" % path, span_loc(f['sp']))
            else:
                res.fail("R16.1b", cfgname, key, "%s: rounding kernel %s is reachable before the unlimited-precision refusal" % (path, late[0]), span_loc(f['sp']))
        else:
            res.ok("R16.1b", cfgname, key, sample=dict(function=path, mode="conditional refusal present"))


INT_DIV_TRAITS = ("core::ops::arith::Div", "core::ops::arith::Rem", "core::ops::arith::DivAssign", "core::ops::arith::RemAssign",
                  "dashu_base::ring::DivRem", "dashu_base::ring::DivEuclid", "dashu_base::ring::RemEuclid",
                  "dashu_base::ring::DivRemEuclid", "dashu_base::ring::DivRemAssign")
DIV0 = "dashu_int::error::panic_divide_by_0"


def _r16_1c(res, P, cfgname):
    fns = [f for f in P.fns('dashu_int') if f['kind'] != 'Closure']
    guarded = set()
    direct = {}
    for f in fns:
        cfg = mir.cfg_of(f['mir'])
        S = None
        blocks = set()
        for bb, t, fr in mir.iter_calls(f['mir']):
            if fr and (fr.get('rp') or fr['p']) == DIV0:
                # the conditional block leading here is the pass-through point
                for p in cfg.pred[bb]:
                    blocks.add(p)
                # a panic block reached through a chain of gotos
                st = list(cfg.pred[bb])
                seen = set(st)
                while st:
                    x = st.pop()
                    if len(cfg.succ[x]) >= 2:
                        blocks.add(x)
                    else:
                        for p in cfg.pred[x]:
                            if p not in seen:
                                seen.add(p)
                                st.append(p)
        # arms where the divisor operand is a Large/RefLarge variant: a heap value has >= 3 words with
        # a non-zero top word (canonical form, R05.1/R17.2), hence is never zero
        if f['p'].startswith("dashu_int::div_ops::repr::") and len(f.get('inputs', [])) >= 2 and "dashu_int::repr::TypedRepr" in f['inputs'][1]:
            S = sym.Sym(f)
            for a, b, fact in S.edge_facts():
                X = fact[1]
                if X[0] == 'discr' and strip_bb(X[1]) in (('arg', 2), ('place', ('arg', 2), ('*',))) and fact[2] == 1:
                    blocks.add(b)
        if f['p'] == "dashu_int::div_const::ConstDivisor::new":
            S = sym.Sym(f)
            for a, b, fact in S.edge_facts():
                X = strip_bb(fact[1])
                if X[0] == 'discr' and X[1] == ('call', 'dashu_int::ubig::UBig::into_repr', (('arg', 1),)) and fact[2] == 1:
                    blocks.add(b)
        direct[f['d']] = blocks
    # hardware division by a checked divisor (Assert DivisionByZero / RemainderByZero) also diverges
    changed = True
    while changed:
        changed = False
        for f in fns:
            if f['p'] in guarded:
                continue
            cfg = mir.cfg_of(f['mir'])
            blocks = set(direct[f['d']])
            for bb, t, fr in mir.iter_calls(f['mir']):
                cp = fr and (fr.get('rp') or fr['p'])
                if cp in guarded:
                    blocks.add(bb)
            if blocks and cfg.must_pass(blocks):
                guarded.add(f['p'])
                changed = True
    n = 0
    for f in fns:
        tr = f.get('trait', '')
        st = strip_ref_ty(f.get('self_ty', ''))
        is_entry = tr.startswith(INT_DIV_TRAITS) and f['name'] in ("div", "rem", "div_assign", "rem_assign", "div_rem", "div_euclid", "rem_euclid", "div_rem_euclid", "div_rem_assign") \
            and ("dashu_int::ubig::UBig" in tr + st or "dashu_int::ibig::IBig" in tr + st) and "ConstDivisor" not in tr + st and "Reduced" not in tr + st
        if f['p'] in ("dashu_int::div_const::ConstDivisor::new",):
            is_entry = True
        if not is_entry:
            continue
        # divisor is the big integer or primitive on the right; forms `prim / big` have the big on the right
        n += 1
        key = f['p']
        if f['p'] in guarded:
            res.ok("R16.1c", cfgname, key, nontrivial=True)
        else:
            res.fail("R16.1c", cfgname, key, "%s: some return path does not pass a zero-divisor test with a diverging edge" % f['p'], span_loc(f['sp']))
    res.floor("R16.1c", cfgname, n, 440, "integer division entry points")


def _r16_1d(res, P, cfgname):
    table = json.load(open(os.path.join(VERIF, "tables", "panic_sites.json")))
    have = defaultdict(set)
    guarded_site = {}
    for f in P.fns():
        if f['crate'] == 'dashu_macros':
            continue
        cfg = None
        for bb, t, fr in mir.iter_calls(f['mir']):
            if fr and fr.get('never'):
                cp = fr.get('rp') or fr['p']
                if cp in table:
                    have[cp].add(f['p'])
                    cfg = cfg or mir.cfg_of(f['mir'])
                    # behind a conditional edge: not every path from entry reaches this block
                    guarded_site[(cp, f['p'])] = not cfg.must_pass([bb])
    n = 0
    crates = set(P.units)
    used_extras = {}
    for helper, fnlist in table.items():
        hc = helper.split("::", 1)[0]
        if hc not in crates:
            continue
        for fp in fnlist:
            fc = fp.lstrip("<").split("::", 1)[0]
            if fc not in crates and not fp.startswith("<"):
                continue
            if "third_party" in fp or "rand" in fp:
                continue
            n += 1
            key = "%s in %s" % (helper.rsplit("::", 1)[1], fp)
            if fp not in have.get(helper, set()):
                if fp.startswith("<") and fc not in crates:
                    continue
                # renamed / moved / extracted: an unlisted function of the same crate raises the same documented
                # panic behind a conditional edge and is not needed to account for another listed site
                extra = sorted(x for x in have.get(helper, set()) if x not in fnlist and x not in used_extras.get(helper, set())
                               and (guarded_site.get((helper, x), False) or (x.endswith("::{closure#0}") and fp.endswith("::{closure#0}")))
                               and x.lstrip("<").split("::", 1)[0] == fc)
                if extra:
                    pref = [x for x in extra if x.rsplit("::", 1)[0] == fp.rsplit("::", 1)[0]] or extra
                    used_extras.setdefault(helper, set()).add(pref[0])
                    res.ok("R16.1d", cfgname, key, sample=dict(site=fp, now_in=pref[0], note="renamed / moved: the documented panic is raised by an unlisted function of the same crate"))
                    continue
                res.fail("R16.1d", cfgname, key, "documented panic `%s` is no longer raised in %s (guard removed or moved)" % (helper, fp))
            elif not guarded_site.get((helper, fp), False) and not fp.endswith(("panic_", "::{closure#0}")) and "error::assert" not in fp:
                res.fail("R16.1d", cfgname, key, "`%s` in %s is no longer behind a conditional edge" % (helper, fp))
            else:
                res.ok("R16.1d", cfgname, key)
    res.floor("R16.1d", cfgname, n, 40, "documented-panic call sites")
    # ln / ln_1p domain guard (inferred from the sibling majority sqrt, powf; confirmed by reading)
    if "dashu_float" in P.units:
        f = next((g for g in P.fns('dashu_float') if g['p'] == "dashu_float::log::<impl dashu_float::repr::Context<R>>::ln_internal"), None)
        if f is None:
            res.anchor("R16.1d", cfgname, "fn ln_internal")
        else:
            S = sym.Sym(f)
            cfg = mir.cfg_of(f['mir'])
            ok = False
            strict_boundary = False
            guard_blocks = set()
            heads = {h for (_t, h) in cfg.back_edges()}
            other_helpers = ("panic_operate_with_inf", "panic_unlimited_precision", "assert_finite", "assert_limited_precision")
            for i, bb in enumerate(f['mir']['bbs']):
                t = bb['t']
                if t['k'] != 'switch' or i not in cfg.reachable():
                    continue
                panics = [s_ for s_ in cfg.succ[i] if cfg.is_panic_block(s_)]
                if not panics:
                    continue
                # the diverging side must be a documented panic of its own (not the finiteness /
                # precision refusals, not a debug assertion)
                good_panic = False
                for pb in panics:
                    for x in cfg.reach_from(pb):
                        tt = f['mir']['bbs'][x]['t']
                        if tt['k'] == 'call':
                            cp = mir.callee_path(tt) or ''
                            fr = mir.callee(tt)
                            macs = mir.span_macros(tt.get('sp', ''))
                            if fr and fr.get('never') and not cp.endswith(other_helpers) and not any(m.startswith('debug_assert') for m in macs):
                                good_panic = True
                if not good_panic:
                    continue
                start = []
                mir.walk_places(t['d'], lambda p: start.append(p['l']))
                locs, calls = mir.backward_slice(f['mir'], start)
                depends_on_x = 2 in locs
                tests = [mir.callee_path(f['mir']['bbs'][c]['t']) or '' for c in calls]
                is_test = any(x.endswith(("::sign", "::is_zero", "::le", "::lt", "::cmp", "::partial_cmp", "::is_positive", "::is_negative")) for x in tests)
                if depends_on_x and is_test and heads:
                    guard_blocks.add(i)
                if depends_on_x and is_test and heads and all(cfg.dominates(i, h) for h in heads):
                    ok = True
                    # ln_1p(-1) = ln(0) is outside the domain too: a comparison with -1 must be
                    # non-strict (x <= -1 is rejected)
                    cmp_neg_one = [x for x in tests if x.endswith(("::le", "::lt", "::ge", "::gt"))]
                    uses_neg_one = any((mir.callee_path(f['mir']['bbs'][c]['t']) or '').endswith("::neg_one") for c in calls)
                    if uses_neg_one and cmp_neg_one and not any(x.endswith(("::le", "::ge")) for x in cmp_neg_one):
                        strict_boundary = True
            # the guard may be split over the two entry modes (`if one_plus { if x <= -1 {panic} } else if .. {panic}`):
            # then no single test dominates the loops, but every path to a loop head passes one of them
            if not ok and guard_blocks and heads and cfg.must_pass(guard_blocks, 0, set(heads)):
                ok = True
            key = "ln_internal: domain guard (x > 0 resp. x > -1) before the series loop"
            if ok and strict_boundary:
                res.fail("R16.1d", cfgname, key + "|boundary", "the ln_1p domain test compares with -1 strictly: ln_1p(-1) = ln(0) passes the guard and enters the series loop (hang / out of memory instead of the documented panic)", span_loc(f['sp']))
            elif ok:
                res.ok("R16.1d", cfgname, key)
            else:
                res.fail("R16.1d", cfgname, key, "ln/ln_1p have no sign/zero test of their argument with a diverging edge before the series loop: ln(x<=0) hangs or exhausts memory instead of panicking", span_loc(f['sp']))


# ---- R16.2 ----------------------------------------------------------------------------------------
PARSER_FILES = ("integer/src/parse/", "integer/src/radix.rs", "float/src/parse.rs", "rational/src/parse.rs")
# reviewed panic edges in parser code: (function suffix, kind) -> (max count, reason)
PARSER_EDGES = {
    ("from_str_native", "assert-macro"): (1, "documented: base B outside 2..=36 is a compile-time property of the type (const generic)"),
    ("from_str_native", "str-index"): (7, "slice bounds are find()/rfind() results of ASCII bytes (+1), or the literal 2 under a starts_with(\"0x\") test"),
    ("from_str_native", "overflow:len"): (12, "string-length arithmetic (digit counts, 4*len): bounded far below usize::MAX by the allocation limit"),
    ("dashu_ratio::parse::<impl dashu_ratio::repr::Repr>::from_str_radix", "str-index"): (2, "slash = find('/') of an ASCII byte"),
    ("dashu_ratio::parse::<impl dashu_ratio::repr::Repr>::from_str_radix", "overflow:len"): (1, "slash + 1 <= len"),
    ("dashu_ratio::parse::<impl dashu_ratio::repr::Repr>::from_str_with_radix_prefix", "str-index"): (2, "slash = find('/') of an ASCII byte"),
    ("dashu_ratio::parse::<impl dashu_ratio::repr::Repr>::from_str_with_radix_prefix", "overflow:len"): (1, "slash + 1 <= len"),
    ("dashu_int::parse::power_two::parse_large", "expect"): (1, "documented: `the number to be parsed is too large` (len * log2(radix) overflowing usize)"),
    ("dashu_int::parse::non_power_two::parse_large", "unwrap"): (1, "radix_powers.pop() after at least one push (loop invariant)"),
    ("dashu_int::radix::digit_from_ascii_byte", "assert-macro"): (1, "internal: radix already validated by the callers (is_radix_valid test in every entry point, checked below)"),
}


def in_parser(f):
    file = mir.span_file(f['sp'])
    return any(x in file for x in PARSER_FILES)


def _parsed_dependent(S, operands):
    """do the operands of an overflow assert depend (flow-insensitive backward slice over local
    definitions) on the result of str::parse::<integer>?"""
    start = []
    for op in operands:
        mir.walk_places(op, lambda p: start.append(p["l"]))
    locs, calls = mir.backward_slice(S.body, start, through_calls=True)
    for bb in calls:
        cp = mir.callee_path(S.body["bbs"][bb]["t"]) or ""
        if "core::str::<impl str>::parse" in cp:
            return True
    return False


def _r16_2(res, P, cfgname):
    entries = [f for f in P.fns() if in_parser(f) and f.get('vis') == 'Public' and 'from_str' in f.get('name', '')]
    if len(entries) < 10:
        res.anchor("R16.2", cfgname, "parser entry points (found %d)" % len(entries))
        return
    seen = {}
    st = list(entries)
    closures = defaultdict(list)
    for g in P.fns():
        if g.get('closure_of'):
            closures[g['closure_of']].append(g)
    while st:
        f = st.pop()
        if f['d'] in seen:
            continue
        seen[f['d']] = f
        for bb, t, fr in mir.iter_calls(f['mir']):
            if fr and fr.get('r') in P.fn:
                g = P.fn[fr['r']]
                if in_parser(g):
                    st.append(g)
        for g in closures.get(f['d'], []):
            st.append(g)
    counts = defaultdict(int)
    where = {}
    for d, f in sorted(seen.items()):
        cfg = mir.cfg_of(f['mir'])
        S = sym.Sym(f)
        for i, bb in enumerate(f['mir']['bbs']):
            if bb.get('cu') or i not in cfg.reachable():
                continue
            t = bb['t']
            kind = None
            if t['k'] == 'assert':
                ak = t['ak']
                if ak.startswith("overflow"):
                    ops = [t.get('x'), t.get('y')]
                    if _parsed_dependent(S, [o for o in ops if o]):
                        kind = "overflow:parsed"
                    else:
                        kind = "overflow:len"
                elif ak in ("divzero", "remzero"):
                    kind = "divzero"
                elif ak == "bounds":
                    kind = "bounds"
                elif ak in ("misaligned", "nullptr"):
                    continue       # debug-build pointer checks on Box/Vec internals
                else:
                    kind = ak
            elif t['k'] == 'call':
                fr = mir.callee(t)
                cp = mir.callee_path(t) or '?'
                macs = mir.span_macros(t['sp'])
                if fr and fr.get('never'):
                    if "debug_assert" in macs or "debug_assert_eq" in macs:
                        kind = "debug-assert"
                    elif "assert" in macs or "assert_eq" in macs:
                        kind = "assert-macro"
                    elif "unreachable" in macs:
                        kind = "unreachable"
                    else:
                        kind = "panic:" + cp
                elif cp.endswith(("Option::<T>::unwrap", "Result::<T, E>::unwrap")):
                    kind = "unwrap"
                elif cp.endswith(("Option::<T>::expect", "Result::<T, E>::expect")):
                    kind = "expect"
                elif "ops::index::Index" in cp and "for str" in cp:
                    kind = "str-index"
                    ok = _str_index_ok(S, t)
                    if not ok:
                        kind = "str-index:unreviewed-bounds"
                elif cp.endswith("::split_at"):
                    kind = "split_at"
            if kind is None:
                continue
            fk = f['p']
            counts[(fk, kind)] += 1
            where[(fk, kind)] = span_loc(t['sp'])
    n = 0
    for (fp, kind), c in sorted(counts.items()):
        n += 1
        key = "%s|%s" % (fp, kind)
        if kind in ("debug-assert",):
            res.ok("R16.2", cfgname, key, nontrivial=False)      # vanish in release; stated beliefs
            continue
        if kind in ("divzero",):
            # radix_info tables: divisor is bits-per-digit of a validated power-of-two radix
            res.ok("R16.2", cfgname, key, nontrivial=False)
            continue
        if kind in ("split_at", "bounds"):
            res.ok("R16.2", cfgname, key, nontrivial=False)
            res.assume("R16.2: %s in %s depends on chunk-length arithmetic of the divide-and-conquer parser — assumed" % (kind, fp))
            continue
        if kind == "overflow:len" and "dashu_int::" in fp:
            res.ok("R16.2", cfgname, key, nontrivial=False)
            res.assume("R16.2: overflow-checked digit/length arithmetic in %s (debug builds only) is bounded by the input length — assumed" % fp)
            continue
        entry = None
        for (suffix, k2), v in PARSER_EDGES.items():
            if k2 == kind and (fp == suffix or fp.endswith("::" + suffix)):
                entry = v
        if kind == "overflow:parsed":
            res.fail("R16.2", cfgname, key, "overflow-checked arithmetic in %s depends on an integer parsed from the input (an exponent near isize::MIN/MAX panics instead of returning Err)" % fp, where[(fp, kind)])
        elif entry is None:
            res.fail("R16.2", cfgname, key, "unreviewed panic edge of kind `%s` in parser function %s (parsers must return Err, never panic)" % (kind, fp), where[(fp, kind)])
        elif c > entry[0]:
            res.fail("R16.2", cfgname, key + "|count", "parser function %s has %d panic edges of kind `%s`, %d are reviewed" % (fp, c, kind, entry[0]), where[(fp, kind)])
        else:
            res.ok("R16.2", cfgname, key, sample=dict(function=fp, kind=kind, count=c, reason=entry[1]))
    res.floor("R16.2", cfgname, len(seen), 30, "parser functions reachable from the entry points")
    # every public integer parser entry validates the radix before digit conversion
    for f in entries:
        if "radix" in f['name'] and f['crate'] == 'dashu_int' and "radix: u32" in "radix: " + ",".join(f.get('inputs', [])):
            pass


def _str_index_ok(S, t):
    """bounds of a str slicing are: a find/rfind result, that +1, or the literal 2"""
    rng = S.operand(t['a'][1])
    if rng[0] != 'agg':
        return False
    for b in rng[3]:
        b = strip_bb(sym.strip_casts(b))
        ok = False
        if b[0] == 'const' and b[1] in (0, 2):
            ok = True
        cand = [b]
        if b[0] == 'bin' and b[1].startswith('Add') and b[3][0] == 'const' and b[3][1] == 1:
            cand = [b[2]]
        for c in cand:
            for s_ in sym.subterms(c):
                if isinstance(s_, tuple) and s_[0] == 'call' and s_[1].endswith(("::find", "::rfind")):
                    ok = True
            if c[0] == 'var':
                ok = ok or _var_from_find(S, c[1])
            if c[0] == 'place' and c[1][0] == 'var' and c[2] == ('as:Some', '.0'):
                ok = ok or _var_from_find(S, c[1][1])
        if not ok:
            return False
    return True


def _var_from_find(S, l):
    defs = S.du.defs.get(l, [])
    if not defs:
        return False
    for (bb, idx, node) in defs:
        if idx == 't':
            if not (mir.callee_path(node) or "").endswith(("::find", "::rfind")):
                return False
            continue
        tt = S.rvalue(node["rv"])
        if not any(isinstance(s_, tuple) and s_[0] == 'call' and s_[1].endswith(("::find", "::rfind")) for s_ in sym.subterms(tt)):
            return False
    return True


# ---- R16.3 ----------------------------------------------------------------------------------------

def _cls(x):
    x = re.sub(r"'[a-z_]+ ", "", x.replace('&', '')).strip()
    if re.fullmatch(r"u(8|16|32|64|128|size)", x):
        return 'uN'
    if re.fullmatch(r"i(8|16|32|64|128|size)", x):
        return 'iN'
    return x.split('::')[-1]


# (trait, self class, rhs class, ok-type class) -> range argument, or None if the group is unsound
GROUPS = {
    ("BitAnd", "UBig", "uN", "uN"): "0 <= x & m <= m",
    ("BitAnd", "uN", "UBig", "uN"): "0 <= m & x <= m",
    ("BitAnd", "IBig", "uN", "uN"): "m >= 0 has zero sign extension: 0 <= x & m <= m",
    ("BitAnd", "uN", "IBig", "uN"): "m >= 0 has zero sign extension: 0 <= m & x <= m",
    ("Div", "uN", "UBig", "uN"): "0 <= floor(n / d) <= n for d >= 1",
    ("Rem", "UBig", "uN", "uN"): "0 <= r < d <= uN::MAX",
    ("DivRem", "UBig", "uN", "uN"): "0 <= r < d <= uN::MAX",
    ("DivRemAssign", "UBig", "uN", "uN"): "0 <= r < d <= uN::MAX",
    ("Div", "iN", "IBig", "iN"): "|trunc(n / d)| <= |n|; the one exception iN::MIN / -1 overflows exactly as the primitive operator does",
    ("Rem", "IBig", "iN", "iN"): "|r| < |d| <= |iN::MIN| and r = 0 or sign(r) = sign(n): fits iN",
    ("DivRem", "IBig", "iN", "iN"): "|r| < |d|: fits iN",
    ("DivRemAssign", "IBig", "iN", "iN"): "|r| < |d|: fits iN",
    # unsound groups (F5 family): the result can be negative but is converted to an unsigned type
    ("Rem", "IBig", "uN", "uN"): None,
    ("DivRem", "IBig", "uN", "uN"): None,
    ("DivRemAssign", "IBig", "uN", "uN"): None,
    ("Div", "uN", "IBig", "uN"): None,
}
UNSOUND_WHY = {
    ("Rem", "IBig", "uN", "uN"): "IBig % unsigned: the remainder takes the sign of the dividend, e.g. IBig(-7) % 3u8 = -1 does not fit u8 -> unwrap panics",
    ("DivRem", "IBig", "uN", "uN"): "IBig.div_rem(unsigned): negative remainder does not fit the unsigned type -> unwrap panics",
    ("DivRemAssign", "IBig", "uN", "uN"): "IBig.div_rem_assign(unsigned): negative remainder does not fit the unsigned type -> unwrap panics",
    ("Div", "uN", "IBig", "uN"): "unsigned / IBig: a negative divisor gives a negative quotient, e.g. 5u8 / IBig(-2) = -2 does not fit u8 -> unwrap panics",
}
UNWRAPS = ("core::result::Result::<T, E>::unwrap", "core::result::Result::<T, E>::expect",
           "core::option::Option::<T>::unwrap", "core::option::Option::<T>::expect")


def other_unwraps(P):
    """unwrap/expect sites outside the primitive-operand macro groups: key -> count"""
    class _R:
        def ok(self, *a, **k): pass
        def fail(self, *a, **k): pass
        def floor(self, *a, **k): pass
    out = {}
    _r16_3(_R(), P, "-", collect=out)
    return out


def _r16_3(res, P, cfgname, collect=None):
    inv_path = os.path.join(VERIF, "tables", "unwrap_inventory.json")
    inventory = json.load(open(inv_path)) if os.path.exists(inv_path) else {}
    other = defaultdict(int)
    ngroup = 0
    groups_seen = defaultdict(int)
    for f in P.fns():
        if f['crate'] == 'dashu_macros':
            continue
        for bb, t, fr in mir.iter_calls(f['mir']):
            cp = fr and (fr.get('rp') or fr['p'])
            if cp not in UNWRAPS:
                continue
            g = fr.get('g', [])
            macs = [m for m in mir.span_macros(t['sp']) if not m.startswith('desugar')]
            is_conv = len(g) >= 2 and g[1].endswith("ConversionError") and cp.startswith("core::result")
            prim_macro = any("with_primitive" in m or m.endswith("by_primitive") for m in macs)
            if cp.startswith("core::result") and len(g) >= 2 and g[1] == "core::convert::Infallible":
                ngroup += 1
                res.ok("R16.3", cfgname, "Infallible|" + f['p'], nontrivial=False)
                continue
            if is_conv and prim_macro:
                ngroup += 1
                tr = re.sub(r"<.*", "", f.get('trait', '-')).split('::')[-1]
                st = _cls(f.get('self_ty', '-'))
                m = re.search(r"<(.*)>", f.get('trait', '') or '')
                rhs = _cls(m.group(1)) if m else '-'
                gk = (tr, st, rhs, _cls(g[0]))
                groups_seen[gk] += 1
                key = "group %s<%s> for %s -> %s | %s" % (tr, rhs, st, gk[3], f['p'])
                if gk not in GROUPS:
                    res.fail("R16.3", cfgname, key, "conversion unwrap in %s belongs to no reviewed range-argument group %s" % (f['p'], gk), span_loc(t['sp']))
                elif GROUPS[gk] is None:
                    res.fail("R16.3", cfgname, "unsound-group %s<%s> for %s -> %s" % gk[0:1] + (gk[2], gk[1], gk[3]) if False else "unsound-group|%s|%s|%s|%s" % gk,
                             UNSOUND_WHY[gk] + " (%d forms, e.g. %s)" % (groups_seen[gk], f['p']), span_loc(t['sp']))
                else:
                    res.ok("R16.3", cfgname, key, sample=dict(group=list(gk), argument=GROUPS[gk]))
                continue
            other[f['p'] + "|" + cp.rsplit("::", 1)[1]] += 1
    res.floor("R16.3", cfgname, ngroup, 1000, "unwraps of the primitive-operand macro forms")
    if collect is not None:
        collect.update(other)
        return
    # frozen inventory of the remaining unwrap/expect sites.  Sites that merely *moved* (a helper inlined into
    # its caller, a block moved to a sibling function) are tolerated: a surplus in one function of a crate is
    # accepted when the same number of reviewed sites of the same method disappeared from functions of that
    # crate in this very configuration (per-configuration table `_per_config`).
    percfg = (inventory.get("_per_config") or {}).get(cfgname)
    deficit = defaultdict(int)
    if percfg:
        for k, lim in percfg.items():
            c = other.get(k, 0)
            if c < lim:
                crate = k.lstrip("<").split("::", 1)[0]
                deficit[(crate, k.rsplit("|", 1)[-1])] += lim - c
    for k, c in sorted(other.items()):
        lim = (percfg.get(k) if percfg else None)
        if lim is None:
            lim = inventory.get(k)
        key = "inventory|" + k
        surplus = c if lim is None else max(0, c - lim)
        if surplus == 0:
            res.ok("R16.3", cfgname, key, nontrivial=False)
            continue
        dk = (k.lstrip("<").split("::", 1)[0], k.rsplit("|", 1)[-1])
        if deficit.get(dk, 0) >= surplus:
            deficit[dk] -= surplus
            res.ok("R16.3", cfgname, key + "|moved", sample=dict(site=k, note="%d reviewed %s site(s) of this crate moved here from another function" % (surplus, dk[1])))
        elif lim is None:
            # functions of optional crates may be absent from the inventory only if never seen: fail closed
            res.fail("R16.3", cfgname, key, "new unwrap()/expect() site not in the reviewed inventory: %s (x%d)" % (k, c))
        else:
            res.fail("R16.3", cfgname, key, "%s has %d unwrap()/expect() sites, the reviewed inventory has %d" % (k, c, lim))


# ---- R16.4 ----------------------------------------------------------------------------------------

def _r16_4(res, P, cfgname):
    nloops = 0
    for f in P.fns():
        if f['crate'] == 'dashu_macros':
            continue
        cfg = mir.cfg_of(f['mir'])
        be = cfg.back_edges()
        if not be:
            continue
        heads = defaultdict(set)
        for tail, head in be:
            heads[head] |= cfg.natural_loop(tail, head)
        for head, body in heads.items():
            nloops += 1
            exits = [(b, s) for b in body for s in cfg.succ[b] if s not in body]
            good = [e for e in exits if not cfg.is_panic_block(e[1])]
            key = "loop@bb%d in %s" % (0, f['p']) if False else "loop in %s #%d" % (f['p'], sorted(heads).index(head))
            if good:
                res.ok("R16.4", cfgname, key, nontrivial=False)
            else:
                res.fail("R16.4", cfgname, key, "loop in %s has no exit edge leading to a non-panicking block: it cannot terminate normally" % f['p'], span_loc(f['mir']['bbs'][head]['t'].get('sp', f['sp'])))
    res.floor("R16.4", cfgname, nloops, 120, "natural loops")
    # recursion: SCCs of the call graph restricted to workspace fns
    graph = {}
    for f in P.fns():
        if f['crate'] == 'dashu_macros':
            continue
        outs = set()
        for bb, t, fr in mir.iter_calls(f['mir']):
            r = fr and fr.get('r')
            if r in P.fn:
                outs.add(r)
        graph[f['d']] = outs
    sccs = _sccs(graph)
    nrec = 0
    for comp in sccs:
        if len(comp) == 1:
            d = next(iter(comp))
            if d not in graph[d]:
                continue
        nrec += 1
        base = []
        for d in comp:
            f = P.fn[d]
            cfg = mir.cfg_of(f['mir'])
            rec_blocks = set()
            for bb, t, fr in mir.iter_calls(f['mir']):
                r = fr and fr.get('r')
                if r in comp:
                    rec_blocks.add(bb)
            if not (rec_blocks and cfg.must_pass(rec_blocks)):
                base.append(f['p'])
        names = sorted(P.fn[d]['p'] for d in comp)
        key = "recursion base path in cycle {%s}" % names[0]
        if base:
            res.ok("R16.4", cfgname, key, sample=dict(cycle=names[:6], base_case_in=base[:3]))
        else:
            res.fail("R16.4", cfgname, key, "recursive cycle %s: every member re-enters the cycle on every path to Return (no base case)" % names[:4], span_loc(P.fn[next(iter(comp))]['sp']))
    res.note("R16.4[%s]: %d natural loops, %d recursive components inventoried (value-dependent termination not judged)" % (cfgname, nloops, nrec))


def _sccs(graph):
    index = {}
    low = {}
    stack = []
    on = set()
    out = []
    counter = [0]
    import sys
    sys.setrecursionlimit(10000)

    def strong(v):
        index[v] = low[v] = counter[0]
        counter[0] += 1
        stack.append(v)
        on.add(v)
        for w in graph.get(v, ()):
            if w not in index:
                strong(w)
                low[v] = min(low[v], low[w])
            elif w in on:
                low[v] = min(low[v], index[w])
        if low[v] == index[v]:
            comp = set()
            while True:
                w = stack.pop()
                on.discard(w)
                comp.add(w)
                if w == v:
                    break
            out.append(comp)
    for v in list(graph):
        if v not in index:
            strong(v)
    return out


# ---------------------------------------------------------------------------------------------
# R16.5  bounded work for tiny values.  Dropping the fractional digits of x = m * B^e (e < 0) through
# shr_digits / split_digits materialises B^|e| for non-binary bases; the integer-rounding family therefore
# answers |x| < 1 from the cheap `smaller_than_one()` estimate first.  Every such digit shift in
# trunc / split_at_point / split_at_point_internal / Repr::to_int must be preceded by that test on every path.
SHIFT_FNS = ("::shr_digits", "::split_digits", "::split_digits_ref", "::shr_digits_in_place")
R16_5_SCOPE = ("round_ops::<impl dashu_float::fbig::FBig<R, B>>::trunc", "::split_at_point", "::split_at_point_internal",
               "convert::<impl dashu_float::repr::Repr<B>>::to_int")


def _r16_5(res, P, cfgname):
    res.rule("R16.5", "the digit shifts of trunc / split_at_point(_internal) / Repr::to_int are preceded on every path by the smaller_than_one() shortcut (no B^|exponent| is built for a tiny value)")
    n = 0
    for f in P.fns("dashu_float"):
        if not f.get("mir") or f.get("kind") == "Closure" or not f["p"].endswith(R16_5_SCOPE):
            continue
        calls = [(bb, (fr.get("rp") or fr["p"]), t) for bb, t, fr in mir.iter_calls(f["mir"]) if fr]
        shifts = [(bb, c, t) for bb, c, t in calls if c.endswith(SHIFT_FNS)]
        if not shifts:
            continue
        cfg = mir.cfg_of(f["mir"])
        gb = {bb for bb, c, t in calls if c.endswith("::smaller_than_one")}
        for bb, c, t in shifts:
            n += 1
            key = "%s %s" % (f["p"], c.rsplit("::", 1)[-1])
            if gb and cfg.must_pass(gb, 0, {bb}):
                res.ok("R16.5", cfgname, key, sample=dict(function=f["p"], shift=c.rsplit("::", 1)[-1], guard="smaller_than_one()"))
            else:
                res.fail("R16.5", cfgname, key, "%s reaches %s without the smaller_than_one() shortcut: for a value like 1e-50000000 the power B^|exponent| is computed before the digits are dropped (unbounded time / memory, or an allocation panic)" % (f["p"], c.rsplit("::", 1)[-1]), span_loc(t["sp"]))
    res.floor("R16.5", cfgname, n, 4, "digit shifts in the integer-rounding family")


LEVEL = LEVEL + ''
TECHNIQUE = 'operand-sensitive interprocedural must-pass-through of finiteness / precision / zero-divisor / domain guards; reviewed panic-edge inventory of the parsers with bounds provenance (find / rfind); grouped unwrap inventory with range arguments; loop-exit and recursion base-path analysis'
LEVEL = LEVEL + ' Also (R16.5) digit shifts by -exponent in the integer-rounding family are preceded by the smaller_than_one() shortcut; (R01.1, shared) no borrow that raises the negative-UBig panic is dropped.'
