"""developer helper: print a function's MIR with symbolic terms.  usage: python3 -m rules.dev <config> <substring of def path>"""
import sys, json
from . import facts, mir, sym

def show(fn):
    print("==", fn["d"], "|", fn["p"], "|", fn.get("sp"))
    b = fn["mir"]; S = sym.Sym(fn); cfg = mir.cfg_of(b)
    for i, bb in enumerate(b["bbs"]):
        if bb.get("cu"): continue
        print(" bb%d%s:" % (i, " [panic]" if cfg.is_panic_block(i) else ""))
        for s in bb["s"]:
            if s["k"] == "as":
                print("    ", sym.term_str(S.place(s["p"])) if s["p"].get("p") else "_%d" % s["p"]["l"], "=", sym.term_str(S.rvalue(s["rv"])), "  #", mir.span_loc(s["sp"]), mir.span_macros(s["sp"]))
            else:
                print("    ", s["k"], json.dumps(s)[:100])
        t = bb["t"]
        if t["k"] == "call":
            print("     _%d = CALL %s(%s) -> bb%s   # %s %s" % (t["d"]["l"], mir.callee_path(t), ", ".join(sym.term_str(S.operand(a)) for a in t["a"]), t["t"], mir.span_loc(t["sp"]), mir.span_macros(t["sp"])))
        elif t["k"] == "switch":
            print("     SWITCH %s %s else bb%d" % (sym.term_str(S.operand(t["d"])), t["ts"], t["o"]))
        elif t["k"] == "assert":
            print("     ASSERT %s == %s [%s] -> bb%d" % (sym.term_str(S.operand(t["c"])), t["e"], t["ak"], t["t"]))
        else:
            print("    ", t["k"], t.get("t"), sym.term_str(S.place(t["p"])) if t["k"]=="drop" else "")

if __name__ == "__main__":
    cfg, pat = sys.argv[1], sys.argv[2]
    for P in facts.load(cfg)[:1]:
        for f in P.fns():
            if pat in f["d"] or pat in f["p"]:
                show(f)
