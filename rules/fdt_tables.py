"""Finite decision tables (FDT rules) shared by C03, C10, C05, C18, C01, C02:
   R03.1/R10.1 round_low_part of the six modes = definition; R03.2 Reverse pairing;
   Add<Rounding> for IBig; R05.3 ordering dispatch; R18.1 is_simpler_than; sign algebra."""
from fractions import Fraction
import math

from . import mir, fdt
from .fdt import Big, Adt, Closure, ordering, sign_of
from .mir import span_loc

ROUNDING = ("NoOp", "AddOne", "SubOne")
MODES = ("Zero", "Away", "Up", "Down", "HalfEven", "HalfAway")


def _cmp(a, b):
    return (a > b) - (a < b)


def base_summaries():
    S = {}
    S["*::is_zero"] = lambda ev, a, fr: int(_v(a[0]) == 0)
    S["*::is_one"] = lambda ev, a, fr: int(_v(a[0]) == 1)
    S["dashu_int::ibig::IBig::sign"] = lambda ev, a, fr: sign_of(_v(a[0]))
    S["*Signed for dashu_int::ibig::IBig>::sign"] = lambda ev, a, fr: sign_of(_v(a[0]))
    S["dashu_base::sign::Signed::is_positive"] = lambda ev, a, fr: int(_v(a[0]) > 0)
    S["dashu_base::sign::Signed::is_negative"] = lambda ev, a, fr: int(_v(a[0]) < 0)
    S["*Signed>::is_positive"] = lambda ev, a, fr: int(_v(a[0]) > 0)
    S["*Signed>::is_negative"] = lambda ev, a, fr: int(_v(a[0]) < 0)
    S["*BitTest for dashu_int::ibig::IBig>::bit"] = lambda ev, a, fr: int((_v(a[0]) >> a[1]) & 1)
    S["*BitTest for dashu_int::ubig::UBig>::bit"] = lambda ev, a, fr: int((_v(a[0]) >> a[1]) & 1)
    for name, f in (("ge", lambda x, y: x >= y), ("gt", lambda x, y: x > y), ("le", lambda x, y: x <= y), ("lt", lambda x, y: x < y)):
        S["*PartialOrd<&B> for &A>::" + name] = (lambda f: lambda ev, a, fr: _ord_call(ev, a, fr, f))(f)
        S["core::cmp::PartialOrd::" + name] = (lambda f: lambda ev, a, fr: _ord_call(ev, a, fr, f))(f)
    S["*PartialEq<&B> for &A>::eq"] = lambda ev, a, fr: int(a[0] == a[1])
    S["*PartialEq<&B> for &A>::ne"] = lambda ev, a, fr: int(a[0] != a[1])
    S["<dashu_base::sign::Sign as core::cmp::PartialEq>::eq"] = lambda ev, a, fr: int(a[0] == a[1])
    S["<dashu_base::sign::Sign as core::cmp::PartialEq>::ne"] = lambda ev, a, fr: int(a[0] != a[1])
    S["core::cmp::Ordering::is_le"] = lambda ev, a, fr: int(a[0].discr() <= 0)
    S["core::cmp::Ordering::is_lt"] = lambda ev, a, fr: int(a[0].discr() < 0)
    S["core::cmp::Ordering::is_ge"] = lambda ev, a, fr: int(a[0].discr() >= 0)
    S["core::cmp::Ordering::is_gt"] = lambda ev, a, fr: int(a[0].discr() > 0)
    S["core::cmp::Ordering::is_eq"] = lambda ev, a, fr: int(a[0].discr() == 0)
    S["core::cmp::Ordering::reverse"] = lambda ev, a, fr: ordering(-a[0].discr())
    S["core::cmp::Ordering::then"] = lambda ev, a, fr: a[0] if a[0].discr() != 0 else a[1]

    def then_with(ev, a, fr):
        if a[0].discr() != 0:
            return a[0]
        return ev.do_call("core::ops::function::FnOnce::call_once", {}, [a[1], ()], None)
    S["core::cmp::Ordering::then_with"] = then_with

    S["*Ord for dashu_int::ibig::IBig>::cmp"] = lambda ev, a, fr: ordering(_cmp(_v(a[0]), _v(a[1])))
    S["*Ord for dashu_int::ubig::UBig>::cmp"] = lambda ev, a, fr: ordering(_cmp(_v(a[0]), _v(a[1])))
    S["*PartialOrd for dashu_int::ibig::IBig>::partial_cmp"] = lambda ev, a, fr: Adt("core::option::Option", "Some", [ordering(_cmp(_v(a[0]), _v(a[1])))], 1)
    S["*PartialOrd for dashu_int::ubig::UBig>::partial_cmp"] = lambda ev, a, fr: Adt("core::option::Option", "Some", [ordering(_cmp(_v(a[0]), _v(a[1])))], 1)
    S["*AbsOrd for dashu_int::ibig::IBig>::abs_cmp"] = lambda ev, a, fr: ordering(_cmp(abs(_v(a[0])), abs(_v(a[1]))))
    # magnitude comparison between any pair of big integer types (AbsOrd<IBig> for UBig, AbsOrd<UBig> for IBig, ...)
    S["* for dashu_int::ubig::UBig>::abs_cmp"] = lambda ev, a, fr: ordering(_cmp(abs(_v(a[0])), abs(_v(a[1]))))
    S["* for dashu_int::ibig::IBig>::abs_cmp"] = lambda ev, a, fr: ordering(_cmp(abs(_v(a[0])), abs(_v(a[1]))))
    S["*as core::clone::Clone>::clone"] = lambda ev, a, fr: a[0]
    return S


def _v(x):
    if isinstance(x, Big):
        return x.v
    if isinstance(x, (int, Fraction)):
        return x
    raise fdt.Undecided("numeric value of %r" % (x,))


def _ord_call(ev, a, fr, f):
    x, y = a[0], a[1]
    if isinstance(x, Big) and isinstance(y, Big):
        return int(f(x.v, y.v))
    if isinstance(x, Adt) and isinstance(y, Adt) and x.adt == y.adt:
        # ordering of an enum: needs the type's own PartialOrd (inlined by the caller) — here only
        # derive-style (declaration order) is not assumed
        raise fdt.Undecided("ordering of enum values %r %r" % (x, y))
    if isinstance(x, int) and isinstance(y, int):
        return int(f(x, y))
    raise fdt.Undecided("ordering of %r %r" % (x, y))


CONSTS = {"IBig::ZERO": Big(0), "IBig::ONE": Big(1), "IBig::NEG_ONE": Big(-1), "UBig::ZERO": Big(0, "UBig"), "UBig::ONE": Big(1, "UBig")}


def rounding_of(n):
    return Adt("dashu_float::round::Rounding", ROUNDING[{0: 0, 1: 1, -1: 2}[n]], (), {0: 0, 1: 1, -1: 2}[n])


def oracle_round(mode, x):
    """round the exact rational x to an integer under the mode (definition)"""
    fl = math.floor(x)
    ce = math.ceil(x)
    if fl == ce:
        return fl
    if mode == "Zero":
        return fl if x > 0 else ce
    if mode == "Away":
        return ce if x > 0 else fl
    if mode == "Up":
        return ce
    if mode == "Down":
        return fl
    d = x - fl
    if d < Fraction(1, 2):
        return fl
    if d > Fraction(1, 2):
        return ce
    if mode == "HalfEven":
        return fl if fl % 2 == 0 else ce
    if mode == "HalfAway":
        return ce if x > 0 else fl
    raise ValueError(mode)


INT_CLASSES = {"neg-odd": (-3, -7), "neg-even": (-2, -8), "zero": (0, 0), "pos-even": (2, 6), "pos-odd": (3, 9)}
LOW_MAG = {"Less": (Fraction(1, 4), Fraction(1, 3)), "Equal": (Fraction(1, 2), Fraction(1, 2)), "Greater": (Fraction(3, 4), Fraction(2, 3))}


def round_low_part_table(P, mode):
    """(code table, oracle table, undecided list) over 5 x 2 x 3 cells"""
    path = "<dashu_float::round::mode::%s as dashu_float::round::Round>::round_low_part" % mode
    fn = next((f for f in P.fns("dashu_float") if f["p"] == path), None)
    if fn is None:
        return None
    S = base_summaries()
    code, want = {}, {}
    for cname, reps in INT_CLASSES.items():
        for sgn in ("Positive", "Negative"):
            for half, mags in LOW_MAG.items():
                cell = (cname, sgn, half)
                vals = set()
                wants = set()
                for rep, mag in zip(reps, mags):
                    low = mag if sgn == "Positive" else -mag
                    args = [Big(rep), sign_of(1 if sgn == "Positive" else -1), Closure(ordering({"Less": -1, "Equal": 0, "Greater": 1}[half]))]
                    r = fdt.tabulate(P, fn, [(cell, args)], S, CONSTS)[cell]
                    vals.add(repr(r))
                    wants.add(repr(rounding_of(oracle_round(mode, Fraction(rep) + low) - rep)))
                code[cell] = vals
                want[cell] = wants
    return fn, code, want


def r03_1(res, programs, rid="R03.1"):
    res.rule(rid, "round_low_part of each of the six modes returns, in every cell of integer class (5) x sign of the low part (2) x half test (3), the adjustment that the mode's definition prescribes (two representatives per class, exact rationals)")
    for P in programs:
        if "dashu_float" not in P.units:
            continue
        cfgname = P.name
        for mode in MODES:
            t = round_low_part_table(P, mode)
            if t is None:
                res.anchor(rid, cfgname, "round_low_part of mode " + mode)
                continue
            fn, code, want = t
            for cell in sorted(code):
                key = "%s cell %s" % (mode, "/".join(cell))
                c, w = code[cell], want[cell]
                if any("undecided" in x for x in c):
                    res.anchor(rid, cfgname, "%s: evaluator undecided (%s)" % (key, sorted(c)[0][:120]))
                elif c == w and len(c) == 1:
                    res.ok(rid, cfgname, key, sample=dict(mode=mode, cell=list(cell), result=sorted(c)[0]))
                else:
                    res.fail(rid, cfgname, key,
                             "mode %s, integer %s, low part %s with |low| %s 1/2: code returns %s, the definition requires %s"
                             % (mode, cell[0], cell[1].lower(), {"Less": "<", "Equal": "=", "Greater": ">"}[cell[2]], sorted(c), sorted(w)), span_loc(fn["sp"]))


def r03_2(res, programs, rid="R03.2"):
    res.rule(rid, "Reverse pairing: the Reverse of a directed mode (Zero<->Away, Up<->Down) picks the opposite neighbour in every cell; the Reverse of a nearest mode is the mode itself")
    allowed = {"Positive": {"Rounding::NoOp", "Rounding::AddOne"}, "Negative": {"Rounding::NoOp", "Rounding::SubOne"}}
    for P in programs:
        if "dashu_float" not in P.units:
            continue
        cfgname = P.name
        rev = {}
        for i in P.units["dashu_float"].impls:
            if i.get("trait") == "dashu_float::round::Round":
                for it in i["items"]:
                    if it["n"] == "Reverse" and "ty" in it:
                        rev[i["self"].rsplit("::", 1)[1]] = it["ty"].rsplit("::", 1)[1]
        if len(rev) != 6:
            res.anchor(rid, cfgname, "Reverse bindings of the six modes (found %s)" % rev)
            continue
        tabs = {}
        for m in MODES:
            t = round_low_part_table(P, m)
            if t is None:
                res.anchor(rid, cfgname, "table of " + m)
                continue
            tabs[m] = {cell: sorted(v)[0] for cell, v in t[1].items()}
        for m in MODES:
            r = rev[m]
            key = "Reverse(%s) = %s" % (m, r)
            if m not in tabs or r not in tabs:
                continue
            bad = []
            if m.startswith("Half"):
                if r != m:
                    bad.append(("nearest mode must be its own Reverse", r))
            else:
                for (c, s, o), v in tabs[m].items():
                    w = tabs[r].get((c, s, o))
                    if v == w or v not in allowed[s] or w not in allowed[s]:
                        bad.append((c, s, o, v, w))
                if rev.get(r) != m:
                    bad.append(("Reverse is not an involution", rev.get(r)))
            if not bad:
                res.ok(rid, cfgname, key, sample=dict(mode=m, reverse=r, cells=len(tabs[m])))
            else:
                res.fail(rid, cfgname, key, "type Reverse of mode %s is %s, which does not pick the opposite neighbour in every cell (e.g. %s)" % (m, r, bad[0]))


def r_add_rounding(res, programs, rid="R03.1b"):
    res.rule(rid, "Add<Rounding> for IBig / &IBig and AddAssign map NoOp -> +0, AddOne -> +1, SubOne -> -1")
    S = base_summaries()
    S["*Add for dashu_int::ibig::IBig>::add"] = lambda ev, a, fr: Big(_v(a[0]) + _v(a[1]))
    S["*Sub for dashu_int::ibig::IBig>::sub"] = lambda ev, a, fr: Big(_v(a[0]) - _v(a[1]))
    S["*Add<dashu_int::ibig::IBig> for &'l dashu_int::ibig::IBig>::add"] = lambda ev, a, fr: Big(_v(a[0]) + _v(a[1]))
    S["*Sub<dashu_int::ibig::IBig> for &'l dashu_int::ibig::IBig>::sub"] = lambda ev, a, fr: Big(_v(a[0]) - _v(a[1]))
    for P in programs:
        if "dashu_float" not in P.units:
            continue
        cfgname = P.name
        fns = [f for f in P.fns("dashu_float") if f.get("trait") == "core::ops::arith::Add<dashu_float::round::Rounding>" and f.get("name") == "add"]
        if len(fns) < 2:
            res.anchor(rid, cfgname, "Add<Rounding> impls (found %d)" % len(fns))
            continue
        for fn in fns:
            for x in (-3, 0, 2):
                for i, rn in enumerate(ROUNDING):
                    cell = (x, rn)
                    r = fdt.tabulate(P, fn, [(cell, [Big(x), Adt("dashu_float::round::Rounding", rn, (), i)])], S, CONSTS)[cell]
                    want = Big(x + {"NoOp": 0, "AddOne": 1, "SubOne": -1}[rn])
                    key = "%s (%d, %s)" % (fn["p"], x, rn)
                    if isinstance(r, tuple) and r and r[0] == "undecided":
                        res.anchor(rid, cfgname, key + ": " + r[1][:100])
                    elif r == want:
                        res.ok(rid, cfgname, key)
                    else:
                        res.fail(rid, cfgname, key, "%s: %d + Rounding::%s gives %r, expected %r" % (fn["p"], x, rn, r, want), span_loc(fn["sp"]))


# ---- R18.1 -----------------------------------------------------------------------------------------

def r18_1(res, programs, rid="R18.1"):
    res.rule(rid, "RBig::is_simpler_than implements the documented lexicographic order: smaller denominator, then smaller numerator magnitude, then positive before negative (36 cells)")
    for P in programs:
        if "dashu_ratio" not in P.units:
            continue
        cfgname = P.name
        fn = next((f for f in P.fns("dashu_ratio") if f["p"] == "dashu_ratio::simplify::<impl dashu_ratio::rbig::RBig>::is_simpler_than"), None)
        if fn is None:
            res.anchor(rid, cfgname, "fn is_simpler_than")
            continue
        S = base_summaries()

        class Rat:
            def __init__(self, n, d):
                self.n, self.d = n, d

            def __repr__(self):
                return "%d/%d" % (self.n, self.d)
        S["dashu_ratio::rbig::RBig::denominator"] = lambda ev, a, fr: Big(a[0].d, "UBig")
        S["dashu_ratio::rbig::RBig::numerator"] = lambda ev, a, fr: Big(a[0].n)
        S["*rbig::RBig>::sign"] = lambda ev, a, fr: sign_of(a[0].n)
        S["dashu_ratio::sign::<impl dashu_ratio::rbig::RBig>::sign"] = lambda ev, a, fr: sign_of(a[0].n)
        inline = {f["p"] for f in P.fns("dashu_base") if "for dashu_base::sign::Sign" in f.get("p", "") and ("PartialOrd" in f["p"] or "Ord" in f["p"])}
        inline |= {"<dashu_base::sign::Sign as core::cmp::Ord>::cmp", "<dashu_base::sign::Sign as core::cmp::PartialOrd>::partial_cmp"}
        # Sign ordering: evaluate through the type's own impl when it is hand-written, else derive order
        sign_impls = [i for i in P.impls if i["self"] == "dashu_base::sign::Sign" and i.get("trait", "").startswith("core::cmp::PartialOrd")]
        for name, f in (("gt", lambda x, y: x > y), ("lt", lambda x, y: x < y), ("ge", lambda x, y: x >= y), ("le", lambda x, y: x <= y)):
            S["core::cmp::PartialOrd::" + name] = (lambda f: lambda ev, a, fr: _sign_ord(ev, P, a, f))(f)
            S["<dashu_base::sign::Sign as core::cmp::PartialOrd>::" + name] = (lambda f: lambda ev, a, fr: _sign_ord(ev, P, a, f))(f)
        cells = 0
        diffs = []
        und = None
        for dl, (d1, d2) in (("den<", (2, 3)), ("den=", (3, 3)), ("den>", (5, 3))):
            for nl, (n1, n2) in (("|num|<", (1, 2)), ("|num|=", (2, 2)), ("|num|>", (4, 2))):
                for s1 in (1, -1):
                    for s2 in (1, -1):
                        a, b = Rat(s1 * n1, d1), Rat(s2 * n2, d2)
                        cell = (dl, nl, "+" if s1 > 0 else "-", "+" if s2 > 0 else "-")
                        r = fdt.tabulate(P, fn, [(cell, [a, b])], S, CONSTS, inline=inline)[cell]
                        # documented order
                        ka = (d1, abs(a.n), 0 if s1 > 0 else 1)
                        kb = (d2, abs(b.n), 0 if s2 > 0 else 1)
                        want = int(ka < kb)
                        cells += 1
                        if isinstance(r, tuple) and r and r[0] in ("undecided", "panic"):
                            und = r
                        elif int(r) != want:
                            diffs.append((cell, int(r), want))
        if und is not None:
            res.anchor(rid, cfgname, "is_simpler_than: evaluator %s (%s)" % (und[0], und[1][:120]))
            continue
        key = "is_simpler_than = lexicographic(den, |num|, sign)"
        if not diffs:
            res.ok(rid, cfgname, key, sample=dict(cells=cells))
        else:
            res.fail(rid, cfgname, key,
                     "RBig::is_simpler_than differs from the documented order (denominator, then |numerator|, then positive first) in %d of %d cells, e.g. %s -> code %s, documented %s: it is a conjunction of three comparisons, not a lexicographic order"
                     % (len(diffs), cells, diffs[0][0], bool(diffs[0][1]), bool(diffs[0][2])), span_loc(fn["sp"]))


def _sign_ord(ev, P, a, f):
    x, y = a[0], a[1]
    if isinstance(x, Adt) and x.adt == "dashu_base::sign::Sign":
        # derive(PartialOrd) would order by declaration (Positive < Negative); a hand-written impl is
        # inlined instead.  Find out which one the crate has.
        impl = [i for i in P.impls if i["self"] == "dashu_base::sign::Sign" and i.get("trait", "") == "core::cmp::PartialOrd"]
        fns = [g for g in P.fns("dashu_base") if g.get("self_ty") == "dashu_base::sign::Sign" and g.get("trait", "") in ("core::cmp::PartialOrd", "core::cmp::Ord") and g.get("name") in ("partial_cmp", "cmp")]
        if not fns:
            raise fdt.Undecided("Sign has no PartialOrd impl body")
        g = next((h for h in fns if h["name"] == "partial_cmp"), fns[0])
        sub = fdt.Evaluator(P, ev.summaries, ev.consts, inline={h["p"] for h in fns})
        r = sub.call(g, [x, y])
        if isinstance(r, Adt) and r.adt.endswith("Option"):
            r = r.fields[0]
        return int(f(r.discr(), 0))
    return _ord_call(ev, a, None, f)


# ---- R05.3 -----------------------------------------------------------------------------------------

def r05_3(res, programs, rid="R05.3"):
    res.rule(rid, "ordering dispatch tables: Ord for TypedReprRef (Small<Large shortcut), Ord for IBig over sign pairs, Sign algebra (Mul<Sign>, Neg, Ord) equal their definitions")
    for P in programs:
        if "dashu_int" not in P.units:
            continue
        cfgname = P.name
        S = base_summaries()
        # --- Ord for TypedReprRef
        fn = next((f for f in P.fns("dashu_int") if f["p"] == "dashu_int::cmp::<impl core::cmp::Ord for dashu_int::repr::TypedReprRef<'a>>::cmp"), None)
        if fn is None:
            res.anchor(rid, cfgname, "Ord for TypedReprRef")
        else:
            S2 = dict(S)
            S2["core::cmp::impls::<impl core::cmp::Ord for u128>::cmp"] = lambda ev, a, fr: ordering(_cmp(a[0], a[1]))
            S2["core::cmp::impls::<impl core::cmp::Ord for u64>::cmp"] = lambda ev, a, fr: ordering(_cmp(a[0], a[1]))
            S2["dashu_int::cmp::cmp_in_place"] = lambda ev, a, fr: ordering(_cmp(_v(a[0]), _v(a[1])))
            T = "dashu_int::repr::TypedReprRef"
            small = lambda v: Adt(T, "RefSmall", [v], 0)
            large = lambda v: Adt(T, "RefLarge", [Big(v)], 1)
            big1, big2 = 1 << 200, 1 << 300
            cases = {("S", "S", "<"): (small(3), small(7)), ("S", "S", "="): (small(5), small(5)), ("S", "S", ">"): (small(9), small(2)),
                     ("S", "L", "<"): (small(3), large(big1)), ("L", "S", ">"): (large(big1), small(3)),
                     ("L", "L", "<"): (large(big1), large(big2)), ("L", "L", "="): (large(big1), large(big1)), ("L", "L", ">"): (large(big2), large(big1))}
            for cell, (x, y) in cases.items():
                r = fdt.tabulate(P, fn, [(cell, [x, y])], S2, CONSTS)[cell]
                want = ordering({"<": -1, "=": 0, ">": 1}[cell[2]])
                key = "TypedReprRef::cmp %s" % (cell,)
                if isinstance(r, tuple) and r and r[0] == "undecided":
                    res.anchor(rid, cfgname, key + ": " + r[1][:100])
                elif r == want:
                    res.ok(rid, cfgname, key)
                else:
                    res.fail(rid, cfgname, key, "Ord for TypedReprRef returns %r for %s (expected %r): the Small-vs-Large shortcut is only sound for canonical values" % (r, cell, want), span_loc(fn["sp"]))
        # --- Ord for IBig
        fn = next((f for f in P.fns("dashu_int") if f["p"] == "dashu_int::cmp::<impl core::cmp::Ord for dashu_int::ibig::IBig>::cmp"), None)
        if fn is None:
            res.anchor(rid, cfgname, "Ord for IBig")
        else:
            S3 = dict(S)
            S3["dashu_int::ibig::IBig::as_sign_repr"] = lambda ev, a, fr: (sign_of(_v(a[0])), Big(abs(_v(a[0])), "mag"))
            S3["dashu_int::cmp::<impl core::cmp::Ord for dashu_int::repr::TypedReprRef<'a>>::cmp"] = lambda ev, a, fr: ordering(_cmp(_v(a[0]), _v(a[1])))
            for x in (-7, -2, 0, 3, 8):
                for y in (-7, -2, 0, 3, 8):
                    cell = (x, y)
                    r = fdt.tabulate(P, fn, [(cell, [Big(x), Big(y)])], S3, CONSTS)[cell]
                    want = ordering(_cmp(x, y))
                    key = "IBig::cmp sign cell (%s, %s)" % ("-" if x < 0 else "+", "-" if y < 0 else "+") + " %d,%d" % (x, y)
                    if isinstance(r, tuple) and r and r[0] == "undecided":
                        res.anchor(rid, cfgname, key + ": " + r[1][:100])
                    elif r == want:
                        res.ok(rid, cfgname, key)
                    else:
                        res.fail(rid, cfgname, key, "Ord for IBig: cmp(%d, %d) dispatches to %r (expected %r)" % (x, y, r, want), span_loc(fn["sp"]))
        # --- sign algebra in dashu_base
        SIGN = "dashu_base::sign::Sign"
        pos, neg = Adt(SIGN, "Positive", (), 0), Adt(SIGN, "Negative", (), 1)
        val = {"Positive": 1, "Negative": -1}
        f_mul = next((f for f in P.fns("dashu_base") if f["p"] == "<dashu_base::sign::Sign as core::ops::arith::Mul>::mul"), None)
        f_neg = next((f for f in P.fns("dashu_base") if f["p"] == "<dashu_base::sign::Sign as core::ops::arith::Neg>::neg"), None)
        if f_mul is None or f_neg is None:
            res.anchor(rid, cfgname, "Mul/Neg for Sign")
        else:
            for a in (pos, neg):
                r = fdt.tabulate(P, f_neg, [("n", [a])], S, CONSTS)["n"]
                key = "-Sign::%s" % a.variant
                if isinstance(r, Adt) and val[r.variant] == -val[a.variant]:
                    res.ok(rid, cfgname, key)
                else:
                    res.fail(rid, cfgname, key, "Neg for Sign: -%s = %r" % (a.variant, r), span_loc(f_neg["sp"]))
                for b in (pos, neg):
                    r = fdt.tabulate(P, f_mul, [("m", [a, b])], S, CONSTS)["m"]
                    key = "Sign::%s * Sign::%s" % (a.variant, b.variant)
                    if isinstance(r, Adt) and val[r.variant] == val[a.variant] * val[b.variant]:
                        res.ok(rid, cfgname, key)
                    else:
                        res.fail(rid, cfgname, key, "Mul for Sign: %s * %s = %r" % (a.variant, b.variant, r), span_loc(f_mul["sp"]))
