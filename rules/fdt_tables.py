def r05_3(res, programs):
    pass
