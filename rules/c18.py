"""C18 — rational approximation (narrow claim): the documented simplicity order.
Optimality of simplest_in, Farey neighbours and nearest is numeric (continued fractions): not decided."""
from . import fdt_tables, mir

PROP = "C18"
CONFIGS = {"quick": ["dbg"], "thorough": ["dbg", "rel", "feat", "w32", "nostd"]}
LEVEL = ("Exhaustive finite decision table (narrow): RBig::is_simpler_than, which selects the result of simplest_in / "
         "simplest_from_f32/f64/float among interval end points, is evaluated over all 36 orderings of "
         "(denominator, |numerator|, sign pair) and must equal the documented lexicographic order (smaller denominator, "
         "then smaller numerator magnitude, then positive before negative); the Sign ordering it relies on is taken "
         "from the code of dashu-base, not assumed. Optimality of the continued-fraction descent and of the Farey "
         "neighbours is numeric and not decided.")
TRUSTED = ["rustc MIR", "leaf summaries (numerator/denominator accessors, integer comparisons) in rules/fdt_tables.py"]


def run(res, programs, tier):
    fdt_tables.r18_1(res, programs, "R18.1")
    for P in programs:
        if "dashu_ratio" in P.units:
            _r18_3(res, P, P.name)
            _r18_5(res, P, P.name)
        if "dashu_float" in P.units:
            _r18_4(res, P, P.name)
    _r18_2(res, programs)
    # the callers use it only to compare interval end points with the interior optimum
    res.rule("R18.1b", "simplest_from_float / impl_simplest_from_float consult is_simpler_than for exactly the included end points (incl_l -> left, incl_r -> right)")
    from . import mir, sym, guards
    for P in programs:
        if "dashu_ratio" not in P.units:
            continue
        n = 0
        for f in P.fns("dashu_ratio"):
            if f["kind"] == "Closure":
                continue
            calls = [(bb, t) for bb, t, fr in mir.iter_calls(f["mir"]) if fr and (fr.get("rp") or fr["p"]).endswith("::is_simpler_than")]
            if not calls or f["p"].endswith("::is_simpler_than"):
                continue
            S = sym.Sym(f)
            cfg = mir.cfg_of(f["mir"])
            for bb, t in calls:
                n += 1
                # each use must be guarded by an inclusion flag (a bool that is true on this edge)
                guarded = any((c[0] == 'unary' and c[1][0] in ('place', 'var', 'arg')) or c[0] == 'rel' for c in guards.constraints_at(S, cfg, bb))
                key = "%s: end-point comparison #%d guarded by its inclusion flag" % (f["p"], n)
                if guarded:
                    res.ok("R18.1b", P.name, key)
                else:
                    res.fail("R18.1b", P.name, key, "%s compares an interval end point with is_simpler_than without testing whether that end point is included" % f["p"], mir.span_loc(t["sp"]))
        res.floor("R18.1b", P.name, n, 4, "uses of is_simpler_than")


# ---- R18.2: rounding interval of a float (ErrorBounds) ------------------------------------------------
import copy
from fractions import Fraction
from . import fdt
from .fdt import Adt, Big
from .fdt_tables import base_summaries, CONSTS, _v, sign_of

FB, RP, CX = "dashu_float::fbig::FBig", "dashu_float::repr::Repr", "dashu_float::repr::Context"


def _fbig(signif, exp, prec):
    return Adt(FB, "FBig", [Adt(RP, "Repr", [Big(signif), exp], 0), Adt(CX, "Context", [prec, ()], 0)], 0)


def _val(f, B=10):
    r = f.fields[0]
    return Fraction(_v(r.fields[0])) * Fraction(B) ** r.fields[1]


def _digits(n, B=10):
    n = abs(n)
    d = 0
    while n:
        n //= B
        d += 1
    return d


def _eb_oracle(mode, signif, exp, prec, B=10):
    """(lower distance, upper distance, incl_l, incl_r) of {x : round_mode(x) == f} at precision prec"""
    if prec == 0:
        return (0, 0, True, True)
    d = _digits(signif, B)
    ulp = Fraction(B) ** (exp + d - prec)
    k = signif * B ** (prec - d)           # the number in units of ulp
    pos = k > 0
    if mode == "Zero":
        return (0, ulp, True, False) if pos else (ulp, 0, False, True)
    if mode == "Away":
        return (ulp, 0, False, True) if pos else (0, ulp, True, False)
    if mode == "Up":
        return (ulp, 0, False, True)
    if mode == "Down":
        return (0, ulp, True, False)
    if mode == "HalfAway":
        return (ulp / 2, ulp / 2, True, False) if pos else (ulp / 2, ulp / 2, False, True)
    if mode == "HalfEven":
        e = (k % 2 == 0)
        return (ulp / 2, ulp / 2, e, e)
    raise ValueError(mode)


def _r18_2(res, programs):
    res.rule("R18.2", "ErrorBounds::error_bounds of the six modes returns, for non-zero floats of both signs and both parities of the last digit, the interval of reals that round to the float (end-point distances in {0, ulp/2, ulp} and their open/closed flags), as derived from the mode's definition")
    for P in programs:
        if "dashu_float" not in P.units:
            continue
        cfgname = P.name
        S = base_summaries()
        S["dashu_float::fbig::FBig::<R, B>::precision"] = lambda ev, a, fr: a[0].fields[1].fields[0]
        S["dashu_float::fbig::FBig::<R, B>::repr"] = lambda ev, a, fr: a[0].fields[0]
        S["dashu_float::repr::Repr::<B>::is_zero"] = lambda ev, a, fr: int(_v(a[0].fields[0]) == 0 and a[0].fields[1] == 0)
        S["dashu_float::repr::Repr::<B>::sign"] = lambda ev, a, fr: sign_of(_v(a[0].fields[0]) if _v(a[0].fields[0]) != 0 else a[0].fields[1])
        S["dashu_float::repr::Repr::<B>::digits"] = lambda ev, a, fr: _digits(_v(a[0].fields[0]))

        def ulp(ev, a, fr):
            f = a[0]
            r, c = f.fields[0], f.fields[1]
            if c.fields[0] == 0:
                raise fdt.Panic("precision cannot be 0 (unlimited) for this operation!")
            return Adt(FB, "FBig", [Adt(RP, "Repr", [Big(1), r.fields[1] + _digits(_v(r.fields[0])) - c.fields[0]], 0), copy.deepcopy(c)], 0)
        S["dashu_float::fbig::FBig::<R, B>::ulp"] = ulp
        S["*as core::clone::Clone>::clone"] = lambda ev, a, fr: copy.deepcopy(a[0])
        S["dashu_int::ubig::UBig::from_word"] = lambda ev, a, fr: Big(a[0], "UBig")
        S["<T as core::convert::Into<U>>::into"] = lambda ev, a, fr: Big(_v(a[0]))
        S["*From<dashu_int::ubig::UBig> for dashu_int::ibig::IBig>::from"] = lambda ev, a, fr: Big(_v(a[0]))
        consts = dict(CONSTS)
        consts["param:B"] = 10
        consts["FBig::<R, B>::ZERO"] = _fbig(0, 0, 0)
        consts["FBig::<Self, B>::ZERO"] = _fbig(0, 0, 0)
        from .fdt_tables import MODES
        for mode in MODES:
            fn = next((f for f in P.fns("dashu_float") if f["p"] == "<dashu_float::round::mode::%s as dashu_float::round::ErrorBounds>::error_bounds" % mode), None)
            if fn is None:
                res.anchor("R18.2", cfgname, "error_bounds of " + mode)
                continue
            for (signif, exp, prec) in ((2, 1, 1), (3, 1, 1), (-2, 1, 1), (-3, 1, 1), (12, 0, 2), (-13, 0, 2), (7, 0, 3), (5, 0, 0), (-5, 2, 0)):
                cell = (signif, exp, prec)
                consts2 = dict(consts)
                consts2["FBig::<R, B>::ZERO"] = _fbig(0, 0, 0)
                r = fdt.tabulate(P, fn, [(cell, [_fbig(signif, exp, prec)])], S, consts2)[cell]
                key = "%s::error_bounds(%d x 10^%d @ precision %d)" % (mode, signif, exp, prec)
                if isinstance(r, tuple) and r and r[0] == "undecided":
                    res.anchor("R18.2", cfgname, key + ": evaluator undecided (%s)" % r[1][:140])
                    continue
                if isinstance(r, tuple) and r and r[0] == "panic":
                    if prec == 0:
                        # documented: ulp() refuses unlimited precision; the directed modes call it
                        res.ok("R18.2", cfgname, key + "|panics-at-unlimited-precision", nontrivial=False)
                        continue
                    res.fail("R18.2", cfgname, key, "%s panics (%s)" % (key, r[1]), mir.span_loc(fn["sp"]))
                    continue
                got = (_val(r[0]), _val(r[1]), bool(r[2]), bool(r[3]))
                want = _eb_oracle(mode, signif, exp, prec)
                want = (Fraction(want[0]), Fraction(want[1]), want[2], want[3])
                if got == want:
                    res.ok("R18.2", cfgname, key, sample=dict(mode=mode, float=list(cell), interval=[str(got[0]), str(got[1]), got[2], got[3]]))
                else:
                    res.fail("R18.2", cfgname, key, "%s returns (-%s, +%s, closed_left=%s, closed_right=%s); the reals that round to this float under mode %s are (-%s, +%s, closed_left=%s, closed_right=%s)" % (
                        key, got[0], got[1], got[2], got[3], mode, want[0], want[1], want[2], want[3]), mir.span_loc(fn["sp"]))


# ---------------------------------------------------------------------------------------------
# R18.3  the zero shortcut of simplest_in.  0 is the simplest member of an open interval only when the
# interval straddles it: lower < 0 < upper.  The sign of the integer zero is Positive, so a sign
# comparison alone takes (-1/2, 0) for a straddling interval and returns the end point 0 (F28).  Every
# early `Repr::zero()` return must therefore sit on edges that decide is_zero() of *both* end points
# (both non-zero with different signs, or both zero).
def _r18_3(res, P, cfgname):
    from . import mir, sym, guards
    res.rule("R18.3", "Repr::simplest_in returns 0 early only on edges where is_zero() of both end points is decided (both non-zero, or both zero): zero as an end point is not inside the open interval")
    path = "dashu_ratio::simplify::<impl dashu_ratio::repr::Repr>::simplest_in"
    f = next((g for g in P.fns("dashu_ratio") if g["p"] == path), None)
    if f is None:
        res.anchor("R18.3", cfgname, "fn " + path)
        return
    b = f["mir"]
    S = sym.Sym(f)
    cfg = mir.cfg_of(b)
    n = 0
    for bb, t, fr in mir.iter_calls(b):
        cp = fr and (fr.get("rp") or fr["p"])
        if cp != "dashu_ratio::repr::Repr::zero" or t["d"]["l"] != 0 or t["d"].get("p"):
            continue
        n += 1
        vals = {}
        for c in guards.constraints_at(S, cfg, bb):
            if c[0] == "bool" and isinstance(c[1], tuple) and c[1][0] == "call" and c[1][1].endswith("::is_zero"):
                vals[sym.term_str(c[1], 300)] = c[2]
        key = "simplest_in zero return #%d" % n
        decided = list(vals.values())
        if len(decided) >= 2 and (all(decided) or not any(decided)):
            res.ok("R18.3", cfgname, key, sample=dict(function=path, is_zero_facts=decided))
        else:
            res.fail("R18.3", cfgname, key, "Repr::simplest_in returns 0 on a path that does not decide is_zero() of both end points (facts: %s): with 0 as an end point (sign Positive) the interval (-1/2, 0) is taken for one that straddles zero and the end point itself is returned" % (decided,), mir.span_loc(t["sp"]))
    res.floor("R18.3", cfgname, n, 1, "early zero returns of simplest_in")


# ---------------------------------------------------------------------------------------------
# R18.4  the end points of the rounding interval are exact quantities.  ErrorBounds::error_bounds and
# what it calls inside dashu_float (FBig::ulp, ...) must not use the cheap estimates (digits_ub, digits_lb,
# log2_est, log2_bounds): an over-estimated digit count doubles the interval for significands just below a
# power of the base, and simplest_from_float then returns a fraction that does not round back.
ESTIMATES = ("::digits_ub", "::digits_lb", "::log2_est", "::log2_bounds")


def _r18_4(res, P, cfgname):
    from . import mir
    res.rule("R18.4", "ErrorBounds::error_bounds and its callees inside dashu_float use no estimate (digits_ub / digits_lb / log2_est / log2_bounds): interval end points are exact")
    fns = {f["p"]: f for f in P.fns("dashu_float") if f.get("mir")}
    roots = [p for p in fns if p.endswith("ErrorBounds>::error_bounds") or ("ErrorBounds for" in p and p.endswith("::error_bounds"))]
    if len(roots) < 6:
        res.anchor("R18.4", cfgname, "six ErrorBounds::error_bounds impls (found %d)" % len(roots))
        return
    for r in sorted(roots):
        seen, st, bad, reached = {r}, [(r, 0)], None, 0
        while st and bad is None:
            p, d = st.pop()
            f = fns.get(p)
            if f is None:
                continue
            reached += 1
            for bb, t, fr in mir.iter_calls(f["mir"]):
                cp = fr and (fr.get("rp") or fr["p"])
                if not cp:
                    continue
                if cp.endswith(ESTIMATES):
                    bad = (p, cp, t)
                    break
                if cp.startswith("dashu_float::") and cp not in seen and d < 3:
                    seen.add(cp)
                    st.append((cp, d + 1))
        key = "estimate-free: " + r
        if bad:
            res.fail("R18.4", cfgname, key, "%s (reached from %s) calls the estimate %s: the rounding interval handed to the simplest-fraction search is no longer exact" % (bad[0], r, bad[1].rsplit("::", 1)[-1]), mir.span_loc(bad[2]["sp"]))
        else:
            res.ok("R18.4", cfgname, key, sample=dict(root=r, functions_reached=reached))


LEVEL = LEVEL + " Also (R18.2) ErrorBounds::error_bounds of every mode returns the interval (with open / closed ends) of values that round back to the float, tabulated against the mode's definition; (R04.1, shared) the interval end points handed to the Farey walk are reduced."
TECHNIQUE = 'finite-domain tabulation of is_simpler_than and of the six ErrorBounds bodies against definition oracles; call-shape rule for the interval end points'
LEVEL = LEVEL + ' Also (R18.3) simplest_in returns 0 early only when is_zero() of both end points is decided; (R18.4) the rounding-interval end points use no estimate.'


# ---------------------------------------------------------------------------------------------
# R18.5  simplest_from_f32 / f64 answer with the constant 0 only for the input 0: the block that builds
# `Some(ZERO)` is dominated by the true edge of `f == 0.0` on the argument.  Any wider test (not normal, below a
# threshold) maps non-zero inputs - subnormals - to a fraction that does not round back to them.
def _r18_5(res, P, cfgname):
    from . import mir
    res.rule("R18.5", "RBig::simplest_from_f32 / f64 return the constant zero only on the true edge of `f == 0.0`")
    n = nf = 0
    for f in P.fns("dashu_ratio"):
        b = f.get("mir")
        if not b or f.get("name") not in ("simplest_from_f32", "simplest_from_f64") or f.get("kind") == "Closure":
            continue
        cfg = mir.cfg_of(b)
        du = mir.defuse_of(b)
        gates = []
        nf += 1
        for i, blk in enumerate(b["bbs"]):
            t = blk["t"]
            if t.get("k") != "switch" or [v for v, _ in t["ts"]] != ["0"]:
                continue
            dl = (mir.op_place(t["d"]) or {}).get("l")
            for (b2, idx, node) in du.defs.get(dl, []):
                if idx == "t" or node["k"] != "as" or node["rv"]["k"] != "bin" or node["rv"]["op"] != "Eq":
                    continue
                a, c = node["rv"]["a"], node["rv"]["b"]
                if mir.op_const(a) is not None:
                    a, c = c, a
                cc = mir.op_const(c)
                if cc is None or cc.get("ty") not in ("f32", "f64") or cc.get("s") not in ("0f32", "0f64", "-0f32", "-0f64"):
                    continue
                al = (mir.op_place(a) or {}).get("l")
                roots, _ = mir.backward_slice(b, [al], through_calls=False)
                if 1 in roots:
                    gates.append(t["o"])
        k = 0
        for i, j, st in mir.iter_stmts(b):
            if not (st["k"] == "as" and st["p"].get("l") == 0 and st["rv"]["k"] == "agg" and st["rv"].get("vn") == "Some"):
                continue
            ol = mir.op_local(st["rv"]["ops"][0]) if st["rv"].get("ops") else None
            consts = [mir.op_const(node["rv"]["a"]) for (b2, idx, node) in du.defs.get(ol, []) if idx != "t" and node["k"] == "as" and node["rv"]["k"] == "use"] if ol is not None else []
            if not any(c and str(c.get("uvp", "")).endswith("::ZERO") for c in consts):
                continue
            k += 1
            n += 1
            key = "%s|zero return #%d" % (f["p"], k)
            if any(cfg.dominates(g, i) for g in gates):
                res.ok("R18.5", cfgname, key, sample=dict(function=f["p"]))
            else:
                res.fail("R18.5", cfgname, key, "%s returns Some(ZERO) on a path not guarded by `f == 0.0`: non-zero inputs (subnormals) are answered with 0, "
                         "which does not round back to them" % f["p"], mir.span_loc(st.get("sp") or f["sp"]))
    # the anchor is the pair of functions; a body without a constant-zero shortcut satisfies the rule trivially
    res.floor("R18.5", cfgname, nf, 2, "simplest_from_f32 / f64 bodies scanned")
LEVEL = LEVEL + ' (R18.5) simplest_from_f32 / f64 return the constant zero only on the true edge of `f == 0.0`.'
TECHNIQUE = TECHNIQUE + '; dominance of the constant-zero return by the `f == 0.0` edge'
