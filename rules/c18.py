"""C18 — rational approximation (narrow claim): the documented simplicity order.
Optimality of simplest_in, Farey neighbours and nearest is numeric (continued fractions): not decided."""
from . import fdt_tables

PROP = "C18"
CONFIGS = {"quick": ["dbg"], "thorough": ["dbg", "rel", "feat", "w32", "nostd"]}
LEVEL = ("Exhaustive finite decision table (narrow): RBig::is_simpler_than, which selects the result of simplest_in / "
         "simplest_from_f32/f64/float among interval end points, is evaluated over all 36 orderings of "
         "(denominator, |numerator|, sign pair) and must equal the documented lexicographic order (smaller denominator, "
         "then smaller numerator magnitude, then positive before negative); the Sign ordering it relies on is taken "
         "from the code of dashu-base, not assumed. Optimality of the continued-fraction descent and of the Farey "
         "neighbours is numeric and not decided.")
TRUSTED = ["rustc MIR", "leaf summaries (numerator/denominator accessors, integer comparisons) in rules/fdt_tables.py"]


def run(res, programs, tier):
    fdt_tables.r18_1(res, programs, "R18.1")
    # the callers use it only to compare interval end points with the interior optimum
    res.rule("R18.1b", "simplest_from_float / impl_simplest_from_float consult is_simpler_than for exactly the included end points (incl_l -> left, incl_r -> right)")
    from . import mir, sym, guards
    for P in programs:
        if "dashu_ratio" not in P.units:
            continue
        n = 0
        for f in P.fns("dashu_ratio"):
            if f["kind"] == "Closure":
                continue
            calls = [(bb, t) for bb, t, fr in mir.iter_calls(f["mir"]) if fr and (fr.get("rp") or fr["p"]).endswith("::is_simpler_than")]
            if not calls or f["p"].endswith("::is_simpler_than"):
                continue
            S = sym.Sym(f)
            cfg = mir.cfg_of(f["mir"])
            for bb, t in calls:
                n += 1
                # each use must be guarded by an inclusion flag (a bool that is true on this edge)
                guarded = any((c[0] == 'unary' and c[1][0] in ('place', 'var', 'arg')) or c[0] == 'rel' for c in guards.constraints_at(S, cfg, bb))
                key = "%s: end-point comparison #%d guarded by its inclusion flag" % (f["p"], n)
                if guarded:
                    res.ok("R18.1b", P.name, key)
                else:
                    res.fail("R18.1b", P.name, key, "%s compares an interval end point with is_simpler_than without testing whether that end point is included" % f["p"], mir.span_loc(t["sp"]))
        res.floor("R18.1b", P.name, n, 4, "uses of is_simpler_than")
