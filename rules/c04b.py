def run(res, P, cfgname):
    pass
