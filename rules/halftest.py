"""Half-test pairing.

Round-to-nearest of a quotient q = n div d decides by comparing the remainder with half the divisor:
`(r << 1).cmp(&d)`, `(r * 2).cmp(&d)`, or `R::round_ratio(&q, r, &d)`.  The decision is only meaningful
when r is the remainder of a division **by that same d**.  Code that pre-scales the operands keeps two
denominators around (`self.denominator` and the shifted `den`): comparing 2r with the wrong one compiles,
is right whenever no scaling happened (every small test value) and is one ulp off otherwise.

Rule: for every half test, every `div_rem` / `rem` call whose result flows into the tested remainder has
a divisor operand that is the same term (modulo references, casts, `clone`, `as_ibig`) as the value the
doubled remainder is compared with."""
from . import mir, sym
from .c17b import strip_bb

TRANSPARENT = ("as core::clone::Clone>::clone", "::as_ibig", "::as_ubig", "as core::convert::From<", "as core::convert::Into<",
               "as core::borrow::Borrow<", "as core::convert::AsRef<")


def norm(t):
    t = strip_bb(t)
    while isinstance(t, tuple):
        if t[0] in ('ref', 'refmut'):
            t = strip_bb(t[1])
        elif t[0] == 'cast':
            t = strip_bb(t[2])
        elif t[0] == 'place' and t[2] == ('*',):
            t = strip_bb(t[1])
        elif t[0] == 'call' and t[2] and any(k in t[1] for k in TRANSPARENT) and len(t[2]) == 1:
            t = strip_bb(t[2][0])
        else:
            break
    return t


def _const(t, v):
    t = norm(t)
    return isinstance(t, tuple) and t[0] == 'const' and t[1] == v


def doubled(t):
    """x if t is 2*x or x << 1 (operator call on big integers, or primitive binary op)"""
    t = norm(t)
    if not isinstance(t, tuple):
        return None
    if t[0] == 'call' and len(t[2]) == 2:
        if '::shl' in t[1] and _const(t[2][1], 1):
            return t[2][0]
        if t[1].endswith('::mul'):
            if _const(t[2][1], 2):
                return t[2][0]
            if _const(t[2][0], 2):
                return t[2][1]
    if t[0] == 'bin':
        if t[1] == 'Shl' and _const(t[3], 1):
            return t[2]
        if t[1] == 'Mul':
            if _const(t[3], 2):
                return t[2]
            if _const(t[2], 2):
                return t[3]
    return None


def _is_division(cp):
    last = cp.rsplit("::", 1)[-1]
    return last in ("div_rem", "rem", "div_rem_assign", "rem_euclid", "div_rem_euclid") and ("DivRem" in cp or "Rem" in cp)


def sites(fn):
    """yield (bb, kind, remainder operand, divisor term, call node)"""
    S = sym.Sym(fn)
    for bb, t, fr in mir.iter_calls(fn["mir"]):
        cp = fr and (fr.get("rp") or fr["p"])
        if not cp:
            continue
        if cp.endswith("::round_ratio") and len(t["a"]) == 3:
            yield S, bb, "round_ratio", t["a"][1], S.operand(t["a"][2]), t
        elif (cp.endswith("::cmp") or cp.endswith("::partial_cmp")) and len(t["a"]) == 2:
            x = doubled(S.operand(t["a"][0]))
            if x is not None:
                yield S, bb, "2r.cmp(d)", t["a"][0], S.operand(t["a"][1]), t


def rule(res, P, cfgname, rid, floor=5):
    res.rule(rid, "half-test pairing: a remainder that is doubled and compared with d (or handed to round_ratio with d) comes only from divisions by that same d")
    n = 0
    for f in P.fns():
        if not f["crate"].startswith("dashu") or f["crate"] == "dashu_macros" or not f.get("mir"):
            continue
        b = f["mir"]
        k = 0
        for S, bb, kind, rop, dterm, node in sites(f):
            l = mir.op_local(rop)
            if l is None:
                continue
            locs, calls = mir.backward_slice(b, [l])
            divs = []
            for cb in calls:
                tt = b["bbs"][cb]["t"]
                cp = mir.callee_path(tt) or ""
                if _is_division(cp) and len(tt["a"]) >= 2:
                    divs.append((cp, S.operand(tt["a"][1]), tt))
            if not divs:
                continue          # the remainder is a parameter here: the pairing is the caller's obligation
            k += 1
            n += 1
            d0 = norm(dterm)
            key = "%s %s #%d" % (f["p"], kind, k)
            bad = [(cp, dv, tt) for cp, dv, tt in divs if norm(dv) != d0]
            if bad:
                cp, dv, tt = bad[0]
                res.fail(rid, cfgname, key, "%s: the remainder tested by `%s` against `%s` comes from a division by `%s` (%s): 2r is compared with a different denominator than the one it is a remainder of" % (
                    f["p"], kind, sym.term_str(d0, 60), sym.term_str(norm(dv), 60), cp.rsplit("::", 1)[-1]), mir.span_loc(node["sp"]))
            else:
                res.ok(rid, cfgname, key, sample=dict(function=f["p"], test=kind, divisor=sym.term_str(d0, 80), divisions=len(divs)))
    res.floor(rid, cfgname, n, floor, "half tests whose remainder comes from a division in the same function")
