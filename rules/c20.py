"""C20 — literal macros: the expansion-time program is a faithful conduit of the run-time parsers.
Not decided: that the run-time parser is right (C07/C08 are not applicable)."""
from collections import defaultdict

from . import mir, sym, guards
from .mir import span_loc
from .c17b import strip_bb

PROP = "C20"
CONFIGS = {"quick": ["dbg", "rel"], "thorough": ["dbg", "rel", "feat", "w32", "nostd"]}
LEVEL = ("Static obligations on the proc-macro crate: (R20.1) from each of the 20 #[proc_macro] entries the only "
         "text-to-number routes are the run-time parsers of dashu-int/float/ratio, and the macro crate does no "
         "digit arithmetic of its own; (R20.2) no Result<_, ParseError> is dropped or defaulted; (R20.3) on every "
         "path to the returned token stream each parsed attribute (sign, magnitude, exponent, precision, "
         "denominator) reaches a ToTokens call; (R20.4) every `bit_len() <= K` threshold guards a conversion to "
         "the K-bit type; (R20.5) the unsafe static-word constructors keep release-surviving normalisation "
         "asserts. Grammar rejection is witnessed on listed literals by compile-fail doc-tests (thorough tier).")
TRUSTED = ["rustc MIR of the proc-macro crate (host build)", "quote!'s ToTokens expansion (every interpolation is a to_tokens call)",
           "the attribute table in rules/c20.py"]

M = "dashu_macros"
ENTRIES = ["ubig", "static_ubig", "ubig_embedded", "static_ubig_embedded", "ibig", "static_ibig", "ibig_embedded", "static_ibig_embedded",
           "fbig", "static_fbig", "fbig_embedded", "static_fbig_embedded", "dbig", "static_dbig", "dbig_embedded", "static_dbig_embedded",
           "rbig", "static_rbig", "rbig_embedded", "static_rbig_embedded"]
RUNTIME_PARSERS = ("dashu_int::parse::<impl dashu_int::ubig::UBig>::from_str_radix",
                   "dashu_int::parse::<impl dashu_int::ubig::UBig>::from_str_with_radix_prefix",
                   "dashu_int::parse::<impl dashu_int::ubig::UBig>::from_str_with_radix_default",
                   "dashu_int::parse::<impl dashu_int::ibig::IBig>::from_str_radix",
                   "dashu_int::parse::<impl dashu_int::ibig::IBig>::from_str_with_radix_prefix",
                   "dashu_float::parse::<impl core::str::traits::FromStr for dashu_float::fbig::FBig<R, B>>::from_str")
FORBIDDEN_DIGIT = ("::to_digit", "::from_digit", "::is_ascii_digit", "::is_digit", "::from_str_radix")
DROPPERS = ("::ok", "::unwrap_or", "::unwrap_or_default", "::is_ok", "::is_err", "::map_or", "::unwrap_or_else", "::err", "::and", "::iter")

# attribute table for R20.3: generator fn -> [(attribute local name, condition or None)]
ATTRS = {
    "dashu_macros::parse::common::quote_words": [("u16_len", None), ("u32_len", None), ("u64_len", None),
                                                  ("u16_tokens", None), ("u32_tokens", None), ("u64_tokens", None)],
    "dashu_macros::parse::int::quote_ubig": [("bytes", None)],
    "dashu_macros::parse::int::quote_ibig": [("sign", None), ("mag", None)],
    "dashu_macros::parse::int::parse_integer": [("big", None), ("sign", ("arg", 1, 1))],
    "dashu_macros::parse::float::parse_binary_float": [("sign", None), ("mag", None), ("exp", None), ("prec", None)],
    "dashu_macros::parse::float::parse_decimal_float": [("sign", None), ("mag", None), ("exp", None), ("prec", None)],
    "dashu_macros::parse::ratio::parse_ratio": [("num", None), ("den", None), ("relaxed", None)],
    "dashu_macros::parse::ratio::parse_static_ratio": [("sign", None), ("num", None), ("den", None), ("relaxed", None)],
}


def run(res, programs, tier):
    res.rule("R20.1", "the 20 proc-macro entries reach the run-time parsers; the macro crate performs no digit arithmetic of its own (only parse::<u32> of the base)")
    res.rule("R20.2", "no Result<_, ParseError> is dropped, defaulted or tested-and-ignored in the macro crate")
    res.rule("R20.3", "every parsed attribute reaches a ToTokens call on every path to the returned token stream of each generator")
    res.rule("R20.4", "every `bit_len() <= K` comparison guards exactly the conversions to the K-bit primitive (K = u32::BITS)")
    res.rule("R20.5", "Repr::from_static_words (integer, rational) keep release-surviving normalisation asserts on the path to the value")
    done = False
    for P in programs:
        if M not in P.units or P.role != "main":
            continue
        done = True
        cfgname = P.name
        _r20_1(res, P, cfgname)
        _r20_2(res, P, cfgname)
        _r20_3(res, P, cfgname)
        _r20_4(res, P, cfgname)
        _r20_7(res, P, cfgname)
        _r20_8(res, P, cfgname)
    for P in programs:
        if "dashu_int" in P.units:
            _r20_5(res, P, P.name)
        if "dashu_float" in P.units and P.role == "main":
            _r20_3b(res, P, P.name)
    if not done:
        res.anchor("R20.1", "-", "facts of crate dashu_macros")


def _macro_fns(P):
    return {f["d"]: f for f in P.fns(M)}


def _reach(P, f):
    fns = _macro_fns(P)
    closures = defaultdict(list)
    for g in fns.values():
        if g.get("closure_of"):
            closures[g["closure_of"]].append(g)
    seen = {}
    st = [f]
    ext = set()
    while st:
        g = st.pop()
        if g["d"] in seen:
            continue
        seen[g["d"]] = g
        for bb, t, fr in mir.iter_calls(g["mir"]):
            if not fr:
                continue
            r = fr.get("r")
            if r in fns:
                st.append(fns[r])
            else:
                ext.add(fr.get("rp") or fr["p"])
        st.extend(closures.get(g["d"], []))
    return seen, ext


def _r20_1(res, P, cfgname):
    fns = {f["p"]: f for f in P.fns(M)}
    n = 0
    for e in ENTRIES:
        f = fns.get("dashu_macros::" + e)
        key = "entry " + e
        if f is None:
            res.anchor("R20.1", cfgname, "proc-macro entry " + e)
            continue
        n += 1
        seen, ext = _reach(P, f)
        parsers = sorted(x for x in ext if x in RUNTIME_PARSERS or ("FromStr" in x and x.startswith("dashu_")) or (x.startswith("dashu_") and "from_str" in x))
        if parsers:
            res.ok("R20.1", cfgname, key, sample=dict(entry=e, parsers=parsers[:3], functions=len(seen)))
        else:
            res.fail("R20.1", cfgname, key, "proc-macro entry %s does not reach any run-time parser of dashu-int/float/ratio" % e, span_loc(f["sp"]))
    # digit arithmetic in the macro crate
    for f in P.fns(M):
        for bb, t, fr in mir.iter_calls(f["mir"]):
            cp = fr and (fr.get("rp") or fr["p"])
            if not cp:
                continue
            if cp.startswith("core::") and cp.endswith(FORBIDDEN_DIGIT):
                n += 1
                res.fail("R20.1", cfgname, "digit arithmetic %s in %s" % (cp, f["p"]), "the macro crate converts digits itself (%s in %s) instead of reusing the run-time parser" % (cp, f["p"]), span_loc(t["sp"]))
            if cp == "core::str::<impl str>::parse":
                n += 1
                g = fr.get("g", [])
                key = "str::parse::<%s> in %s" % (g[0] if g else "?", f["p"])
                if g and g[0] == "u32":
                    res.ok("R20.1", cfgname, key)
                else:
                    res.fail("R20.1", cfgname, key, "the macro crate parses a %s itself in %s (only the `base N` suffix, a u32, may be parsed here)" % (g[0] if g else "?", f["p"]), span_loc(t["sp"]))
    res.floor("R20.1", cfgname, n, 20, "proc-macro entries")


def _r20_2(res, P, cfgname):
    n = 0
    for f in P.fns(M):
        fns = _macro_fns(P)
        for bb, t, fr in mir.iter_calls(f["mir"]):
            cp = fr and (fr.get("rp") or fr["p"])
            if not cp or not cp.startswith("core::result::Result::<T, E>::"):
                continue
            g = fr.get("g", [])
            if len(g) < 2 or not g[1].endswith("ParseError"):
                # any other error type (ParseIntError of the `base N` literal, ...): turning the error into a
                # value merges "malformed" with a well-formed case
                meth = "::" + cp.rsplit("::", 1)[1]
                if meth in ("::ok", "::unwrap_or", "::unwrap_or_default", "::unwrap_or_else", "::map_or", "::is_ok", "::is_err"):
                    n += 1
                    res.fail("R20.2", cfgname, "Result<_, %s>%s in %s" % (g[1].rsplit("::", 1)[-1] if len(g) > 1 else "?", meth, f["p"]),
                             "%s turns an error (%s) into a value with Result%s: a malformed part of the literal is merged with a well-formed case instead of aborting the expansion" % (f["p"], g[1] if len(g) > 1 else "?", meth), span_loc(t["sp"]))
                continue
            n += 1
            meth = "::" + cp.rsplit("::", 1)[1]
            key = "Result<_, ParseError>%s in %s" % (meth, f["p"])
            if meth in DROPPERS:
                if meth == "::unwrap_or_else":
                    # fine when the closure diverges (a proc-macro panic *is* the compile error)
                    S = sym.Sym(f)
                    c = strip_bb(S.operand(t["a"][1]))
                    ok = False
                    if c[0] == 'agg' and c[1] == 'closure':
                        cl = next((h for h in P.fns(M) if h["d"] == c[2]), None)
                        if cl is not None and not mir.cfg_of(cl["mir"]).rets or (cl is not None and all(mir.cfg_of(cl["mir"]).is_panic_block(b) for b in [0])):
                            ok = True
                    if ok:
                        res.ok("R20.2", cfgname, key + "|diverging")
                        continue
                res.fail("R20.2", cfgname, key, "a parse error is dropped in %s (Result<_, ParseError>%s): a malformed literal would become a different number instead of a compile error" % (f["p"], meth), span_loc(t["sp"]))
            else:
                res.ok("R20.2", cfgname, key)
    # every fn returning Result<_, ParseError> is consumed by unwrap_with_error_msg / `?`
    for f in P.fns(M):
        if "ParseError>" in f.get("output", "") and f["kind"] != "Closure":
            users = []
            for g in P.fns(M):
                for bb, t, fr in mir.iter_calls(g["mir"]):
                    if fr and fr.get("r") == f["d"]:
                        S = sym.Sym(g)
                        # the result local must flow into unwrap_with_error_msg or Try::branch
                        locs, calls = mir.forward_slice(g["mir"], [t["d"]["l"]])
                        sinks = [mir.callee_path(g["mir"]["bbs"][c]["t"]) or "" for c in calls]
                        users.append((g["p"], any(s.endswith(("unwrap_with_error_msg", "Try>::branch")) for s in sinks)))
            n += 1
            key = "result of %s is consumed" % f["p"]
            if users and all(u[1] for u in users):
                res.ok("R20.2", cfgname, key, sample=dict(function=f["p"], callers=[u[0] for u in users]))
            else:
                res.fail("R20.2", cfgname, key, "the Result of %s is not consumed by unwrap_with_error_msg / `?` in %s" % (f["p"], [u[0] for u in users if not u[1]] or "no caller"), span_loc(f["sp"]))
    res.floor("R20.2", cfgname, n, 3, "ParseError results judged")


def _named_locals(body, name):
    """the *first* binding with that name (later `let sign = quote_sign(.., sign)` shadowings are
    token streams derived from it and are reached through the forward slice)"""
    ls = [v["p"]["l"] for v in body.get("vars", []) if v["n"] == name and not v["p"].get("p")]
    return ls[:1]


def _r20_3(res, P, cfgname):
    for path, attrs in ATTRS.items():
        f = next((g for g in P.fns(M) if g["p"] == path), None)
        if f is None:
            res.anchor("R20.3", cfgname, "generator fn " + path)
            continue
        body = f["mir"]
        cfg = mir.cfg_of(body)
        S = sym.Sym(f)
        for name, cond in attrs:
            locs = _named_locals(body, name)
            key = "%s carries `%s`" % (path.rsplit("::", 1)[1], name)
            if not locs:
                res.anchor("R20.3", cfgname, "attribute local `%s` in %s" % (name, path))
                continue
            fwd, calls = mir.forward_slice(body, locs)
            tok_blocks = set()
            for bb in calls:
                cp = mir.callee_path(body["bbs"][bb]["t"]) or ""
                if cp.endswith("ToTokens>::to_tokens") or cp.endswith("::to_tokens"):
                    tok_blocks.add(bb)
                # handing the attribute to another generator of the macro crate (quote_ubig,
                # quote_ibig, quote_words, quote_sign, quote_bytes) carries it as well: those
                # helpers are judged on their own
                if cp.startswith("dashu_macros::parse::") and ("::quote_" in cp) and body["bbs"][bb]["t"]["d"]["l"] == 0:
                    tok_blocks.add(bb)      # the helper's tokens are returned directly
            # generator branches that are *selected by* the attribute (e.g. `if relaxed {..}`)
            # carry it by construction: a switch on it counts as a use
            for i, blk in enumerate(body["bbs"]):
                t = blk["t"]
                if t["k"] == "switch":
                    l = mir.op_local(t["d"])
                    if l is not None and l in fwd and name in ("relaxed",):
                        tok_blocks.add(i)
            # conditional requirement: prune edges contradicting the condition
            avoid_edges = set()
            if cond is not None:
                for a, b, fact in S.edge_facts():
                    if fact[1] == (cond[0], cond[1]) and fact[2] != cond[2] and not (isinstance(fact[2], tuple) and fact[2][0] == 'not' and cond[2] not in fact[2][1]):
                        avoid_edges.add((a, b))
            ok = _must_pass_edges(cfg, tok_blocks, avoid_edges)
            if ok:
                res.ok("R20.3", cfgname, key, sample=dict(generator=path, attribute=name, to_tokens_sites=len(tok_blocks), condition=str(cond)))
            else:
                res.fail("R20.3", cfgname, key, "generator %s has a path to its returned token stream on which the parsed `%s` is never interpolated: the produced value would differ from the run-time parse" % (path, name), span_loc(f["sp"]))


def _must_pass_edges(cfg, blocks, avoid_edges):
    if 0 in blocks:
        return True
    seen = {0}
    st = [0]
    rets = set(cfg.rets)
    while st:
        x = st.pop()
        if x in rets:
            return False
        for y in cfg.succ[x]:
            if (x, y) in avoid_edges or y in seen or y in blocks:
                continue
            seen.add(y)
            st.append(y)
    return True


def _r20_4(res, P, cfgname):
    n = 0
    for f in P.fns(M):
        S = None
        cfg = None
        for bb, t, fr in mir.iter_calls(f["mir"]):
            cp = fr and (fr.get("rp") or fr["p"])
            if cp != "<T as core::convert::TryInto<U>>::try_into":
                continue
            g = fr.get("g", [])
            if len(g) >= 2 and "dashu_int" in g[0] and g[1] not in ("u32", "u16", "u8"):
                # the proc-macro runs on the host: a literal converted to a type whose width depends on the host
                # word (Word, DoubleWord = u64 / u128, usize) or is wider than the 32-bit const path is expanded
                # to `<lit> as _`, which truncates on a target with a narrower word
                n += 1
                res.fail("R20.4", cfgname, "try_into::<%s> in %s" % (g[1], f["p"]),
                         "%s converts the parsed integer to %s: the const-expression path must go through a fixed 32-bit value (u32); a host-sized or wider literal is truncated by `as _` on targets with a smaller word" % (f["p"], g[1]), span_loc(t["sp"]))
                continue
            if len(g) < 2 or g[1] not in ("u32", "u16", "u8") or "dashu_int" not in g[0]:
                continue
            n += 1
            S = S or sym.Sym(f)
            cfg = cfg or mir.cfg_of(f["mir"])
            bits = {"u8": 8, "u16": 16, "u32": 32}[g[1]]
            arg = strip_bb(S.operand(t["a"][0]))
            ok = False
            seen_k = []
            for c in guards.constraints_at(S, cfg, bb):
                if c[0] == 'rel' and c[1] in ('Le', 'Lt'):
                    A, B = strip_bb(c[2]), c[3]
                    if A[0] == 'call' and A[1].endswith("::bit_len") and B[0] == 'const':
                        k = B[1] if c[1] == 'Le' else B[1] - 1
                        seen_k.append(k)
                        if k <= bits:
                            ok = True
            ordinal = n
            key = "try_into::<%s> in %s #%d" % (g[1], f["p"], sum(1 for _ in [0]))
            key = "try_into::<%s> in %s (%s)" % (g[1], f["p"], sym.term_str(arg, 60))
            if ok:
                res.ok("R20.4", cfgname, key, sample=dict(function=f["p"], conversion=g[1], threshold=seen_k))
            else:
                res.fail("R20.4", cfgname, key, "conversion to %s in %s is not guarded by `bit_len() <= %d` (thresholds seen: %s): the const generator path would panic or truncate" % (g[1], f["p"], bits, seen_k), span_loc(t["sp"]))
    res.floor("R20.4", cfgname, n, 7, "threshold-guarded conversions")


# R20.7: a proc-macro is compiled with the profile of the *host* build (debug assertions on in dev, off
# in release): anything it checks only in a debug assertion is checked in one profile and not in the
# other, so the set of accepted literals / the generated tokens would depend on the profile.
DEBUG_REVIEWED = {}   # parser functions (returning Result<_, ParseError>) with a reviewed debug-only region: none


def _r20_7(res, P, cfgname):
    from . import c19
    res.rule("R20.7", "the literal parsers of the macro crate (functions returning Result<_, ParseError>) check nothing in debug assertions only: acceptance of a literal does not depend on the profile the proc-macro was built with")
    n = 0
    for f in P.fns(M):
        if not f.get("mir"):
            continue
        n += 1
        r = c19.debug_regions(f["mir"])
        key = "debug-only region in " + f["p"]
        # only the functions that decide acceptance (they return Result<_, ParseError>) are in scope: a
        # redundant debug assertion in a token generator that works on already validated values changes
        # neither the accepted grammar nor the tokens
        if r and "ParseError" not in f.get("output", ""):
            res.ok("R20.7", cfgname, key + " (token generator, not a parser)", nontrivial=False)
            continue
        if not r:
            res.ok("R20.7", cfgname, "no " + key, nontrivial=False)
        elif f["p"] in DEBUG_REVIEWED:
            res.ok("R20.7", cfgname, key, sample=dict(function=f["p"], reviewed=DEBUG_REVIEWED[f["p"]]))
        else:
            res.fail("R20.7", cfgname, key, "%s checks something inside a debug assertion only: a release-built proc-macro skips it, so a literal rejected (or a value produced) in the dev profile differs in the release profile" % f["p"], span_loc(f["sp"]))
    res.floor("R20.7", cfgname, n, 20, "function bodies of the macro crate")


# R20.8: rbig!(..) and rbig!(~..) differ only in whether the fraction is reduced: the canonical and the
# relaxed branch of the ratio parser must build their value through the same-named constructor from the
# same argument terms (signs of numerator and denominator included).
def _r20_8(res, P, cfgname):
    res.rule("R20.8", "the RBig and the Relaxed branch of parse_ratio_with_error call the same-named constructors / accessors with identical argument terms")
    f = next((g for g in P.fns(M) if g["p"].endswith("::parse_ratio_with_error")), None)
    if f is None:
        res.anchor("R20.8", cfgname, "fn parse_ratio_with_error")
        return
    S = sym.Sym(f)
    calls = {"RBig": [], "Relaxed": []}
    for bb, t, fr in mir.iter_calls(f["mir"]):
        cp = fr and (fr.get("rp") or fr["p"]) or ""
        for ty in calls:
            if ("rbig::%s::" % ty) in cp or ("rbig::%s>::" % ty) in cp:
                args = tuple(sym.term_str(S.operand(a), 600).replace("rbig::Relaxed", "rbig::T").replace("rbig::RBig", "rbig::T") for a in t["a"])
                calls[ty].append((cp.rsplit("::", 1)[-1], args))
    key = "parse_ratio_with_error: RBig ~ Relaxed construction"
    if not calls["RBig"] or not calls["Relaxed"]:
        res.anchor("R20.8", cfgname, key)
    elif sorted(calls["RBig"]) == sorted(calls["Relaxed"]):
        res.ok("R20.8", cfgname, key, sample=dict(function=f["p"], constructors=sorted({c for c, _ in calls["RBig"]})))
    else:
        res.fail("R20.8", cfgname, key, "the relaxed branch builds its value with %s but the canonical branch with %s (or from different argument terms): rbig!(~x) and rbig!(x) would denote different numbers for some sign combination" % (
            sorted({c for c, _ in calls["Relaxed"]}), sorted({c for c, _ in calls["RBig"]})), span_loc(f["sp"]))


def _r20_3b(res, P, cfgname):
    """R20.3b: the const constructor the float macros expand to (`from_parts_const(sign, u, exp, Some(prec))`)
    must hand the precision on: every value it returns is data-dependent on `min_precision`."""
    res.rule("R20.3b", "FBig::from_parts_const: every returned value depends on the min_precision argument (the precision parsed by fbig!/dbig! is not dropped inside the constructor)")
    path = "dashu_float::fbig::FBig::<R, B>::from_parts_const"
    f = next((g for g in P.fns("dashu_float") if g["p"] == path), None)
    if f is None:
        res.anchor("R20.3b", cfgname, "fn " + path)
        return
    b = f["mir"]
    names = [v.get("name") for v in b.get("vars", [])] if isinstance(b.get("vars"), list) else []
    ins = f.get("inputs", [])
    arg = next((i + 1 for i, t in enumerate(ins) if "Option<usize>" in t), None)
    if arg is None:
        res.anchor("R20.3b", cfgname, "Option<usize> parameter of from_parts_const")
        return
    du = mir.defuse_of(b)
    cfg = mir.cfg_of(b)
    S = sym.Sym(f)
    n = 0
    for (bb, idx, node) in du.defs.get(0, []):
        if bb not in cfg.reachable():
            continue
        n += 1
        start = []
        if idx == "t":
            mir.walk_places(node["a"], lambda p: start.append(p["l"]))
            term = mir.callee_path(node)
        else:
            mir.walk_places(node["rv"], lambda p: start.append(p["l"]))
            term = sym.term_str(S.rvalue(node["rv"]), 80)
        seen, _ = mir.backward_slice(b, start)
        key = "from_parts_const returns " + term.rsplit("::", 1)[-1].split("(")[0]
        if arg in seen:
            res.ok("R20.3b", cfgname, key, sample=dict(function=path, returned=term, depends_on="min_precision (arg %d)" % arg))
        else:
            res.fail("R20.3b", cfgname, key, "FBig::from_parts_const returns `%s` without using min_precision: fbig!/dbig! of a literal whose significand is zero lose the parsed precision (dbig!(0.000).precision() == 0, DBig::from_str(\"0.000\") has precision 4)" % term, span_loc(node.get("sp", f["sp"])))
    res.floor("R20.3b", cfgname, n, 2, "return-value definitions of from_parts_const")


def _r20_5(res, P, cfgname):
    want = {"dashu_int::repr::Repr::from_static_words": 2}
    if "dashu_ratio" in P.units:
        want["dashu_ratio::repr::Repr::from_static_words"] = 1
    for path, k in want.items():
        f = next((g for g in P.fns() if g["p"] == path), None)
        if f is None:
            res.anchor("R20.5", cfgname, "fn " + path)
            continue
        cfg = mir.cfg_of(f["mir"])
        S = sym.Sym(f)
        cnt = 0
        for a, b, fact in S.edge_facts():
            if a in cfg.reachable() and cfg.is_panic_block(b) and not cfg.is_panic_block(a):
                # the panic must be an assert!, not unreachable_unchecked / Unreachable terminator
                for x in cfg.reach_from(b):
                    tt = f["mir"]["bbs"][x]["t"]
                    if tt["k"] == "call" and (mir.callee(tt) or {}).get("never") and any(m in ("assert", "assert_eq") for m in mir.span_macros(tt.get("sp", ""))):
                        cnt += 1
                        break
        key = "%s keeps %d release-surviving assert(s)" % (path, k)
        if cnt >= k:
            res.ok("R20.5", cfgname, key, sample=dict(function=path, asserts=cnt, debug_assertions=P.units[f["crate"]].debug_assertions))
        else:
            res.fail("R20.5", cfgname, key, "%s has %d assert! edges in this configuration, %d are required (a non-normalised static literal must be rejected in release builds too)" % (path, cnt, k), span_loc(f["sp"]))


LEVEL = LEVEL + ' Also (R20.3b) FBig::from_parts_const hands on min_precision on every return path, (R20.7) the macro crate checks nothing in debug assertions only (profile independence); (R20.6w, thorough) 16 literals outside the grammar are rejected at compile time (with compiling twins).'
TECHNIQUE = 'call-graph reachability from the proc-macro entries to the run-time parsers; error-discipline rule on Result<_, ParseError>; attribute-carried-on-all-paths dataflow over the token generators; threshold / conversion pairing; debug-region inventory; compile-fail witnesses with twins'
LEVEL = LEVEL + ' Also (R20.2) no Result of any error type is turned into a value in the macro crate; (R20.8) the canonical and the relaxed branch of the ratio literal parser build their value identically.'
LEVEL = LEVEL + ' (R20.4) the macro crate converts literal parts only to fixed-width types (u8/u16/u32): a conversion to a host-sized type would make the expansion depend on the build machine.'
