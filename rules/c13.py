"""C13 — reduced-ring arithmetic: ring-identity and invertibility panics, typing of residues.
Decides the panic/guard clauses; the homomorphism itself is numeric and not decided."""
from . import mir, sym, guards
from .mir import span_loc

PROP = "C13"
CONFIGS = {"quick": ["dbg", "rel"], "thorough": ["dbg", "rel", "feat", "w32", "nostd"]}
LEVEL = ("Static obligations on all paths: every binary operation / comparison with two `Reduced` operands "
         "calls the ring-identity check (with one ring taken from each operand) on every path to a return "
         "and before any kernel call; division reaches its panic on the non-invertible edge and `inv` "
         "returns None only on the gcd != 1 edges; `Reduced` values are constructed only by the three "
         "validating constructors. The homomorphism (residue arithmetic) is numeric and not decided.")
TRUSTED = ["rustc MIR and callee resolution", "the reviewed accessor/constructor tables in rules/c13.py"]

M = "dashu_int::modular::repr::"
CHECKS = {M + "Reduced::<'a>::check_same_ring_single", M + "Reduced::<'a>::check_same_ring_double",
          M + "Reduced::<'a>::check_same_ring_large"}
ACCESSORS = {M + "Reduced::<'a>::repr", M + "Reduced::<'a>::repr_mut", M + "Reduced::<'a>::into_repr",
             "<dashu_int::modular::repr::Reduced<'a> as core::clone::Clone>::clone",
             "<dashu_int::modular::repr::Reduced<'_> as core::clone::Clone>::clone"}
DIFF_RINGS = "dashu_int::error::panic_different_rings"
REDUCED_TY = "dashu_int::modular::repr::Reduced<"


# not ring operations: clone_from overwrites self with a value of any ring (no arithmetic mixes them)
NOT_RING_OPS = ("as core::clone::Clone>::clone_from",)


def two_reduced(fn):
    if fn["p"].endswith(NOT_RING_OPS):
        return False
    return sum(1 for t in fn.get("inputs", []) if REDUCED_TY in t) >= 2


def run(res, programs, tier):
    from . import c19
    c19.shared_r19_2(res, programs)
    for P in programs:
        if "dashu_int" in P.units:
            _r13_6(res, P, P.name)
            _r13_7(res, P, P.name)
    res.rule("R13.1", "every fn with two Reduced operands passes check_same_ring_* (rings from both operands) on every path to Return, directly or by delegation; the check dominates every kernel call")
    res.rule("R13.2", "Div reaches panic_divide_by_invalid_modulo on the None edge of inv(); inv_large returns None only on the zero / gcd != 1 edges")
    res.rule("R13.3", "Reduced(..) is constructed only in from_single/from_double/from_large; the check helpers compare by ptr::eq and diverge on mismatch")
    for P in programs:
        if "dashu_int" not in P.units:
            continue
        cfgname = P.name
        fns = {f["p"]: f for f in P.fns("dashu_int")}
        missing = [c for c in CHECKS if c not in fns]
        if missing:
            # paths are printed with the impl's lifetime names; find by suffix
            alt = {}
            for p in fns:
                for c in CHECKS:
                    if p.endswith(c.rsplit("::", 1)[1]) and "modular::repr::Reduced" in p:
                        alt[c] = p
            checks = set(alt.values())
        else:
            checks = set(CHECKS)
        if len(checks) != 3:
            res.anchor("R13.1", cfgname, "check_same_ring_{single,double,large}")
            continue
        # ---- R13.3a: the check helpers themselves
        for c in sorted(checks):
            fn = fns[c]
            S = sym.Sym(fn)
            cfg = mir.cfg_of(fn["mir"])
            ok_eq = False
            ok_panic = False
            for bb, t, f in mir.iter_calls(fn["mir"]):
                cp = f and (f.get("rp") or f["p"])
                if cp == "core::ptr::eq":
                    a, b = S.operand(t["a"][0]), S.operand(t["a"][1])
                    ra = [s_ for s_ in sym.subterms(a) if isinstance(s_, tuple) and s_[0] == 'arg']
                    rb = [s_ for s_ in sym.subterms(b) if isinstance(s_, tuple) and s_[0] == 'arg']
                    ok_eq = bool(ra) and bool(rb) and {x[1] for x in ra} != {x[1] for x in rb}
                if cp == DIFF_RINGS:
                    # must be on the ptr::eq == false edge
                    for cc in guards.constraints_at(S, cfg, bb):
                        if cc[0] == 'bool' and cc[1][0] == 'call' and cc[1][1] == "core::ptr::eq" and cc[2] is False:
                            ok_panic = True
            # every return path has ptr::eq true
            key = "helper " + c.rsplit("::", 1)[1]
            if ok_eq and ok_panic:
                res.ok("R13.3", cfgname, key, sample=dict(function=c, shape="ptr::eq(arg1, arg2) false => panic_different_rings()"))
            else:
                res.fail("R13.3", cfgname, key, "%s no longer compares its two ring arguments by identity with a diverging mismatch edge (eq=%s panic=%s)" % (c, ok_eq, ok_panic), span_loc(fn["sp"]))
        # ---- R13.1: least fixed point of "all return paths pass a check"
        passing = set(checks)
        cands = [f for f in P.fns("dashu_int") if f["kind"] != "Closure"]
        changed = True
        while changed:
            changed = False
            for f in cands:
                if f["p"] in passing:
                    continue
                cfg = mir.cfg_of(f["mir"])
                blocks = set()
                for bb, t, fr in mir.iter_calls(f["mir"]):
                    cp = fr and (fr.get("rp") or fr["p"])
                    if cp in passing:
                        blocks.add(bb)
                if blocks and cfg.must_pass(blocks):
                    passing.add(f["p"])
                    changed = True
        n = 0
        for f in cands:
            if not two_reduced(f):
                continue
            n += 1
            key = f["p"]
            if f["p"] not in passing:
                res.fail("R13.1", cfgname, key, "%s takes two Reduced operands but some path to Return passes no ring-identity check" % f["p"], span_loc(f["sp"]))
                continue
            # direct checkers: dominance + distinct operands
            S = sym.Sym(f)
            cfg = mir.cfg_of(f["mir"])
            chk_blocks = []
            bad_args = None
            for bb, t, fr in mir.iter_calls(f["mir"]):
                cp = fr and (fr.get("rp") or fr["p"])
                if cp in checks:
                    chk_blocks.append(bb)
                    a, b = S.operand(t["a"][0]), S.operand(t["a"][1])
                    ra = {s_[1] for s_ in sym.subterms(a) if isinstance(s_, tuple) and s_[0] in ('arg',)}
                    rb = {s_[1] for s_ in sym.subterms(b) if isinstance(s_, tuple) and s_[0] in ('arg',)}
                    if not ra or not rb or ra == rb:
                        bad_args = (sym.term_str(a, 100), sym.term_str(b, 100))
            if chk_blocks:
                if bad_args:
                    res.fail("R13.1", cfgname, key + "|operands", "%s: ring check compares %s with %s — not one ring from each operand" % (f["p"], bad_args[0], bad_args[1]), span_loc(f["sp"]))
                    continue
                undominated = []
                for bb, t, fr in mir.iter_calls(f["mir"]):
                    cp = fr and (fr.get("rp") or fr["p"])
                    if cp is None or cp in checks or cp in ACCESSORS or cp == DIFF_RINGS or cp.startswith(("core::panicking", "core::fmt")):
                        continue
                    if any(a in cp for a in ("::repr", "::repr_mut", "::into_repr")) and "Reduced" in cp:
                        continue
                    if cfg.is_panic_block(bb):
                        continue
                    if not any(cfg.dominates(cb, bb) and cb != bb for cb in chk_blocks):
                        undominated.append((cp, span_loc(t["sp"])))
                if undominated:
                    res.fail("R13.1", cfgname, key + "|order", "%s: kernel call %s is not preceded by the ring-identity check" % (f["p"], undominated[0][0]), undominated[0][1])
                    continue
                res.ok("R13.1", cfgname, key, sample=dict(function=f["p"], mode="direct", checks=len(chk_blocks)))
            else:
                res.ok("R13.1", cfgname, key, sample=dict(function=f["p"], mode="delegating"))
        res.floor("R13.1", cfgname, n, 25, "functions with two Reduced operands")
        # ---- R13.2
        divs = [f for f in cands if two_reduced(f) and f.get("trait", "").startswith("core::ops::arith::Div<") and f["name"] == "div"]
        direct = 0
        for f in divs:
            S = sym.Sym(f)
            cfg = mir.cfg_of(f["mir"])
            has_inv = any((fr and (fr.get("rp") or fr["p"]).endswith("::inv")) for bb, t, fr in mir.iter_calls(f["mir"]))
            if not has_inv:
                continue
            direct += 1
            ok = False
            for bb, t, fr in mir.iter_calls(f["mir"]):
                cp = fr and (fr.get("rp") or fr["p"])
                if cp == "dashu_int::error::panic_divide_by_invalid_modulo":
                    for cc in guards.constraints_at(S, cfg, bb):
                        if cc[0] == 'unary':
                            X = cc[1]
                            if X[0] == 'discr' and X[1][0] == 'call' and X[1][1].endswith("::inv"):
                                try:
                                    if cc[2](0) and not cc[2](1):
                                        ok = True
                                except Exception:
                                    pass
            # and the Some edge multiplies
            key = f["p"] + "|None=>panic"
            if ok:
                res.ok("R13.2", cfgname, key, sample=dict(function=f["p"], guard="discr(inv(rhs)) == None  =>  panic_divide_by_invalid_modulo()"))
            else:
                res.fail("R13.2", cfgname, key, "%s: the None edge of rhs.inv() does not reach panic_divide_by_invalid_modulo" % f["p"], span_loc(f["sp"]))
        if direct < 1:
            res.anchor("R13.2", cfgname, "Div impl calling inv()")
        f = fns.get("dashu_int::modular::div::inv_large")
        if f is None:
            res.anchor("R13.2", cfgname, "fn inv_large")
        else:
            S = sym.Sym(f)
            cfg = mir.cfg_of(f["mir"])
            nn = 0
            for i, j, s in mir.iter_stmts(f["mir"]):
                if s["k"] == "as" and s["p"]["l"] == 0 and s["rv"]["k"] == "agg" and s["rv"].get("vn") == "None":
                    nn += 1
                    facts = guards.constraints_at(S, cfg, i)
                    ok = False
                    for cc in facts:
                        if cc[0] == 'unary':
                            txt = sym.term_str(cc[1], 300)
                            try:
                                if "locate_top_word_plus_one" in txt and cc[2](0) and not cc[2](1):
                                    ok = True        # raw == 0
                                if cc[1][0] == 'var' and cc[2](0) and not cc[2](1):
                                    ok = True        # !is_g_one   (is_g_one is a multiply-assigned local)
                                if cc[1][0] == 'place' and cc[2](0) and not cc[2](1):
                                    ok = True
                            except Exception:
                                pass
                    key = "inv_large None #%d" % nn
                    if ok:
                        res.ok("R13.2", cfgname, key)
                    else:
                        res.fail("R13.2", cfgname, key, "inv_large returns None on an edge that is neither `raw == 0` nor `!is_g_one`", span_loc(s["sp"]))
            if nn < 2:
                res.anchor("R13.2", cfgname, "two None returns in inv_large")
            # the invertibility flag of the multi-word branch must depend on the *length* of the gcd
            # (a multi-word gcd whose low word is 1 is not 1) as well as on its low word
            body = f["mir"]
            gcd_dest = None
            for bb, t, fr in mir.iter_calls(body):
                if fr and (fr.get("rp") or fr["p"]) == "dashu_int::gcd::gcd_ext_in_place":
                    gcd_dest = t["d"]["l"]
            flags = set()
            for i, blk in enumerate(body["bbs"]):
                t = blk["t"]
                if t["k"] == "switch" and i in cfg.reachable():
                    # the switch whose one side is the `return None`
                    l = mir.op_local(t["d"])
                    if l is not None and any(cfg.is_panic_block(x) is False and any(s2["k"] == "as" and s2["p"]["l"] == 0 and s2["rv"]["k"] == "agg" and s2["rv"].get("vn") == "None" for s2 in body["bbs"][x]["s"]) for x in cfg.succ[i]):
                        flags.add(l)
            key = "inv_large: invertibility flag depends on the gcd length"
            if gcd_dest is None or not flags:
                res.anchor("R13.2", cfgname, key)
            else:
                locs, _calls = mir.backward_slice(body, list(flags), control=True)
                reads_len = False
                for i, j, s2 in mir.iter_stmts(body):
                    if s2["k"] == "as" and s2["p"]["l"] in locs:
                        def chk(pl):
                            nonlocal reads_len
                            pr = pl.get("p", [])
                            if pl["l"] == gcd_dest and pr and pr[0].get("k") == "f" and pr[0].get("i") == 0:
                                reads_len = True
                        mir.walk_places(s2["rv"], chk)
                if reads_len:
                    res.ok("R13.2", cfgname, key, sample=dict(function=f["p"], note="is_g_one reads gcd_ext_in_place(..).0 (g_len)"))
                else:
                    res.fail("R13.2", cfgname, key, "inv_large decides invertibility without the length of the gcd returned by gcd_ext_in_place: a multi-word gcd whose lowest word is 1 would be taken for 1 and inv() would return Some for a non-invertible element", span_loc(f["sp"]))
        _r13_4(res, P, cfgname)
        _r13_5(res, P, cfgname)
        from . import c15
        c15._r15_4b(res, P, cfgname)     # shared: Reduced::clone_from must also copy the ring reference
        # ---- R13.3b constructors
        ctor_ok = {M + "Reduced::<'a>::from_single", M + "Reduced::<'a>::from_double", M + "Reduced::<'a>::from_large"}
        nct = 0
        for f in P.fns():
            if f["crate"] == "dashu_macros":
                continue
            for i, j, s in mir.iter_stmts(f["mir"]):
                if s["k"] == "as" and s["rv"]["k"] == "agg" and s["rv"].get("adt") == "dashu_int::modular::repr::Reduced":
                    nct += 1
                    key = "Reduced(..) in " + f["p"]
                    if f["p"] in ctor_ok or (f["p"].endswith(("::from_single", "::from_double", "::from_large")) and "modular::repr::Reduced" in f["p"]):
                        res.ok("R13.3", cfgname, key)
                    elif f["p"].endswith("as core::clone::Clone>::clone") and "Reduced" in f["p"]:
                        res.ok("R13.3", cfgname, key, nontrivial=False)
                    else:
                        res.fail("R13.3", cfgname, key, "Reduced(..) constructed in %s, outside from_single/from_double/from_large" % f["p"], span_loc(s["sp"]))
        res.floor("R13.3", cfgname, nct, 3, "Reduced(..) constructor sites")


# ---------------------------------------------------------------------------------------------
# R13.4  provenance of raw residues.  `ReducedWord(x)` / `ReducedDword(x)` wrap a *normalised* residue
# (0 <= x < m << shift).  Every struct-literal site must take x from a reducing kernel of the ring, from
# a reviewed producer, be the constant 0, or sit on an edge where x was compared with
# ring.normalized_divisor().  A value computed from constants and the shift alone (1 << shift) is not
# reduced in the ring of modulus 1 (F24: `one()` returned the normalised divisor itself).
RAW_ADTS = ("dashu_int::modular::repr::ReducedWord", "dashu_int::modular::repr::ReducedDword")
KERNEL_PREFIXES = ("dashu_int::div_const::ConstSingleDivisor::", "dashu_int::div_const::ConstDoubleDivisor::",
                   "dashu_int::fast_div::", "dashu_base::ring::")
KERNEL_TRAITS = ("num_modular::Reducer<",)      # <impl num_modular::Reducer<T> for PreMulInv..>::{neg,dbl,sqr,mul,..}


def _is_kernel(path):
    return path.startswith(KERNEL_PREFIXES) or any(k in path for k in KERNEL_TRAITS)
# reviewed producers of an already reduced value (one line of reason each)
RAW_REVIEWED = {
    "convert_from_normalized": "contract of the function: `target` is the output of a normalised in-ring kernel (mul/pow of valid residues)",
    "inv::{closure#0}": "closure of Option::map over ring.0.inv(..): the argument is the kernel's inverse",
    "inv::{closure#1}": "closure of Option::map over ring.0.inv(..): the argument is the kernel's inverse",
    "ReducedDword::one": "a ConstDoubleDivisor modulus has two words, so 1 << shift < m << shift",
}
NORM_DIV = ("::normalized_divisor",)


def _r13_4(res, P, cfgname):
    res.rule("R13.4", "the operand of every ReducedWord(..)/ReducedDword(..) literal comes from a ring kernel, a reviewed producer, is 0, or was compared with ring.normalized_divisor() on the path (a constant-derived value is not a residue modulo 1)")
    n = 0
    for f in P.fns("dashu_int"):
        b = f.get("mir")
        if not b:
            continue
        sites = [(i, s) for i, j, s in mir.iter_stmts(b)
                 if s["k"] == "as" and s["rv"]["k"] == "agg" and s["rv"].get("adt") in RAW_ADTS]
        if not sites:
            continue
        S = sym.Sym(f)
        cfg = mir.cfg_of(b)
        for bbi, s in sites:
            if bbi not in cfg.reachable():
                continue
            n += 1
            t = sym.strip_casts(S.operand(s["rv"]["ops"][0])) if s["rv"].get("ops") else None
            adt = s["rv"]["adt"].rsplit("::", 1)[-1]
            key = "%s(..) in %s" % (adt, f["p"])
            why = _raw_ok(f, t, S, cfg, bbi)
            if why:
                res.ok("R13.4", cfgname, key + " #" + why[0], sample=dict(function=f["p"], operand=sym.term_str(t, 120), discharged_by=why[1]))
            else:
                res.fail("R13.4", cfgname, key, "%s(%s) in %s: the wrapped value does not come from a ring kernel and is not compared with normalized_divisor() on the path, so it need not be a residue (< m << shift) for every modulus (m = 1: 1 << shift equals the normalised divisor)" % (adt, sym.term_str(t, 100), f["p"]), span_loc(s["sp"]))
    res.floor("R13.4", cfgname, n, 12, "ReducedWord/ReducedDword literal sites")


def _raw_ok(f, t, S, cfg, bbi):
    if t is None:
        return None
    for k, why in RAW_REVIEWED.items():
        if f["p"].endswith(k):
            return ("reviewed", why)
    if t[0] == "const" and t[1] == 0:
        return ("zero", "the constant 0 is a residue of every ring")
    root = t
    # look through Result/Option unwrapping and conversions of a kernel result
    calls = sym.calls_in(t)
    if t[0] == "call" and _is_kernel(t[1]):
        return ("kernel", "result of " + t[1][:90])
    if t[0] == "place" and isinstance(t[1], tuple) and t[1][0] == "call" and _is_kernel(t[1][1]):
        return ("kernel", "projection of the result of " + t[1][1][:90])
    if t[0] == "var":
        # a local assigned on several paths: every definition must be a kernel call
        du = mir.defuse_of(f["mir"])
        defs = du.defs.get(t[1], [])
        if defs and all(n.get("k") == "call" and _is_kernel(mir.callee_path(n)) for (_i, _j, n) in defs):
            return ("kernel", "every definition is a kernel call: " + ", ".join(sorted({mir.callee_path(n).rsplit("::", 1)[-1] for (_i, _j, n) in defs})))
    # a field of an existing raw residue (copy)
    if t[0] == "place" and any(str(pj) in (".0",) for pj in t[2]) and not calls:
        base = t[1]
        if base[0] in ("arg", "place", "var"):
            return ("copy", "field of an existing raw residue")
    # compared with the normalised divisor on every path to this site
    for c in guards.constraints_at(S, cfg, bbi):
        if c[0] != "rel":
            continue
        _, op, A, B = c
        A1, B1 = sym.strip_casts(A), sym.strip_casts(B)
        for x, y, o in ((A1, B1, op), (B1, A1, guards._SWAP[op])):
            if x == t and y[0] == "call" and y[1].endswith(NORM_DIV) and o in ("Ne", "Lt"):
                return ("guard", "on the edge `%s %s normalized_divisor()`" % (sym.term_str(t, 60), o))
    return None


# ---------------------------------------------------------------------------------------------
# R13.5  the single-word and double-word rings are width twins: wherever a function handles both the
# `Single` and the `Double` variant (of ConstDivisorRepr or ReducedRepr), the accessors it calls on the ring
# object bound in each arm must agree (normalized_divisor vs divisor, shift, divider, ...).  Residues are
# stored pre-shifted, so `divisor()` in one arm where the twin uses `normalized_divisor()` mixes the two
# scales for exactly one width class.
import re as _re


def _twin_name(c):
    c = c.rsplit("::", 1)[-1]
    for a, b in (("single", "X"), ("double", "X"), ("dword", "W"), ("word", "W")):
        c = c.replace(a, b)
    return c


def _r13_5(res, P, cfgname):
    from collections import Counter
    res.rule("R13.5", "in every function that handles both the Single and the Double ring variant, the accessors called on the ring object agree between the two arms")
    n = 0
    for f in P.fns("dashu_int"):
        b = f.get("mir")
        if not b:
            continue
        S = None
        acc = {"Single": Counter(), "Double": Counter()}
        for bb, t, fr in mir.iter_calls(b):
            cp = fr and (fr.get("rp") or fr["p"])
            # the ring's own accessors only (normalized_divisor / divisor / shift / rem_* ...): trait calls on
            # the inner num-modular reducer are routinely wrapped in closures / combinators
            if not cp or not t["a"] or not cp.startswith("dashu_int::div_const::Const"):
                continue
            S = S or sym.Sym(f)
            a0 = sym.term_str(S.operand(t["a"][0]), 300)
            for v in ("Single", "Double"):
                if _re.search(r"as:%s\.[01]\*?(\.0)?\*?$" % v, a0):
                    acc[v][_twin_name(cp)] += 1
        if not (acc["Single"] or acc["Double"]):
            continue
        n += 1
        key = "Single ~ Double arms of " + f["p"]
        if acc["Single"] == acc["Double"]:
            res.ok("R13.5", cfgname, key, sample=dict(function=f["p"], accessors=dict(acc["Single"])))
        else:
            res.fail("R13.5", cfgname, key, "%s calls %s on the single-word ring but %s on the double-word ring: the two width classes use different quantities (residues are kept pre-shifted by the normalisation shift)" % (
                f["p"], dict(acc["Single"]), dict(acc["Double"])), span_loc(f["sp"]))
    res.floor("R13.5", cfgname, n, 5, "functions handling both ring widths")


LEVEL = LEVEL + ' Also (R13.4) every raw residue literal takes its value from a ring kernel, a reviewed producer, 0, or a value compared with the normalised divisor; (R15.4b, shared) Reduced::clone_from copies residue and ring on every path; (R19.2, shared) no modular step sits inside a debug assertion; compile-fail witness (thorough): a Reduced value cannot outlive its ring.'
TECHNIQUE = 'must-pass-through of the ring-identity checks before every kernel; edge analysis of Option::None -> panic; constructor sets; provenance rule for raw residues; clone_from field completeness (must-pass-through over field writes); compile-fail witness'
LEVEL = LEVEL + ' Also (R13.5) the Single and Double ring arms of a function call the same accessors on the ring.'


# ---- R13.6: the conditional reduction is inclusive -----------------------------------------------------------
# Residues are kept in [0, m).  After an addition / doubling / a short product the value lies in [0, 2m) and is
# brought back by *one* conditional subtraction of the modulus; its test has to be `value >= m`: with a strict
# test the value m itself survives (2 * (m/2) = m instead of 0) and every later operation works on an
# unreduced residue.  In every function that compares a value with the ring's modulus (cmp_same_len /
# cmp_in_place) and subtracts that modulus in place, the Ordering is tested with is_ge (or is_lt), never with
# is_gt / is_le / is_eq / is_ne.
_CMPS = ("cmp::cmp_same_len", "cmp::cmp_in_place")
_SUBS = ("add::sub_same_len_in_place", "add::sub_in_place")
_ORD_OK = ("is_ge", "is_lt")
_ORD_BAD = ("is_gt", "is_le", "is_eq", "is_ne")


def _r13_6(res, P, cfgname):
    res.rule("R13.6", "a conditional subtraction of the modulus is guarded by an inclusive comparison (value >= modulus): a residue equal to the modulus is reduced to 0")
    n = 0
    for f in P.fns("dashu_int"):
        body = f.get("mir")
        if not body or "::modular::" not in f["p"]:
            continue
        calls = [(bb, t, (fr.get("rp") or fr["p"])) for bb, t, fr in mir.iter_calls(body) if fr]
        if not any(cp.endswith(_SUBS) for bb, t, cp in calls):
            continue
        du = mir.defuse_of(body)
        k = 0
        for bb, t, cp in calls:
            if not cp.endswith(_CMPS):
                continue
            # copies of the Ordering result
            seen, st = set(), [t["d"]["l"]]
            while st:
                l = st.pop()
                if l in seen:
                    continue
                seen.add(l)
                for (b2, idx, node) in du.uses.get(l, []):
                    if idx != "t" and node["k"] == "as" and node["rv"]["k"] in ("use", "ref"):
                        st.append(node["p"]["l"])
            tests = []
            for b2, t2, cp2 in calls:
                if cp2.startswith("core::cmp::Ordering::is_"):
                    used = set()
                    mir.walk_places(t2["a"], lambda pl: used.add(pl["l"]))
                    if used & seen:
                        tests.append((cp2.rsplit("::", 1)[-1], t2))
            if not tests:
                # the Ordering is consumed in another form (match, comparison with a constant): not decided here,
                # counted so that the anchor (comparison + in-place subtraction in one kernel) stays visible
                n += 1
                k += 1
                res.ok("R13.6", cfgname, "%s|reduction test #%d" % (f["p"], k), nontrivial=False,
                       sample=dict(function=f["p"], note="Ordering not tested through is_*(): form not decided"))
            for name, t2 in tests:
                k += 1
                n += 1
                key = "%s|reduction test #%d" % (f["p"], k)
                if name in _ORD_OK:
                    res.ok("R13.6", cfgname, key, sample=dict(function=f["p"], test=name))
                else:
                    res.fail("R13.6", cfgname, key, "%s guards the subtraction of the modulus with Ordering::%s: a value equal to the modulus is not reduced "
                             "(residues must stay in [0, m))" % (f["p"], name), mir.span_loc(t2.get("sp") or f["sp"]))
    res.floor("R13.6", cfgname, n, 4, "conditional reductions against the modulus")
LEVEL = LEVEL + ' (R13.6) every conditional subtraction of the modulus in the multi-word ring kernels is guarded by an inclusive comparison (value >= modulus).'


# ---- R13.7: a raw product is reduced before it is returned ---------------------------------------------------
# mul_normalized / sqr_normalized build the double-length product of two residues and hand back a residue: every
# path from a block that computes a product (mul::multiply, sqr::sqr, or the one-word `a0 * b0`) to a return
# passes the long division by the modulus or the comparison with the modulus that guards the conditional
# subtraction (R13.6).  A product of two residues below m that happens to fit n words is still up to m^2 - 1.
_PRODUCERS = ("mul::multiply", "sqr::sqr", "mul::multiply_in_place")
_REDUCERS = ("div::div_rem_in_place", "cmp::cmp_same_len", "cmp::cmp_in_place", "div::div_rem_unshifted_in_place")


def _r13_7(res, P, cfgname):
    res.rule("R13.7", "multi-word ring multiplication: every path from a product (mul::multiply / sqr::sqr / one-word product) to a return "
                      "passes the division by the modulus or the comparison guarding the conditional subtraction")
    n = 0
    for f in P.fns("dashu_int"):
        body = f.get("mir")
        if not body or "::modular::mul::" not in f["p"] or f.get("kind") == "Closure":
            continue
        prod, red = [], set()
        for bb, t, fr in mir.iter_calls(body):
            cp = fr and (fr.get("rp") or fr["p"]) or ""
            if cp.endswith(_PRODUCERS):
                prod.append((bb, cp, t.get("sp", "")))
            if cp.endswith(_REDUCERS):
                red.add(bb)
        for i, j, st in mir.iter_stmts(body):
            if st["k"] == "as" and st["rv"]["k"] == "bin" and st["rv"]["op"] in ("Mul", "MulWithOverflow", "MulUnchecked"):
                l = mir.op_local(st["rv"]["a"])
                if l is not None and body["locals"][l]["ty"] in ("u128", "u64", "u32") and not mir.op_const(st["rv"]["b"]) \
                        and body["locals"][l]["ty"] != "usize" and _is_dword(P, body["locals"][l]["ty"]):
                    prod.append((i, "one-word product", st.get("sp", "")))
        if not prod:
            continue
        cfg = mir.cfg_of(body)
        rets = [b for b in cfg.reachable() if body["bbs"][b]["t"]["k"] == "ret"]
        for k, (bb, cp, sp) in enumerate(prod):
            n += 1
            key = "%s|product #%d (%s)" % (f["p"], k + 1, cp.rsplit("::", 1)[-1])
            if bb in red or cfg.must_pass(red, src=bb, targets=rets):
                res.ok("R13.7", cfgname, key, sample=dict(function=f["p"], product=cp))
            else:
                res.fail("R13.7", cfgname, key, "%s: a path from the %s to a return passes neither the division by the modulus nor the comparison with it: "
                         "the product of two residues is handed back unreduced" % (f["p"], cp), mir.span_loc(sp or f["sp"]))
    res.floor("R13.7", cfgname, n, 4, "products in the multi-word ring multiplication")


def _is_dword(P, ty):
    """the double word (u128 with 64-bit words, u64 with 32-bit words); usize index arithmetic is excluded by the caller"""
    return ty in ("u128", "u64")
LEVEL = LEVEL + ' (R13.7) every product computed by mul_normalized / sqr_normalized passes the division by the modulus or the guarded conditional subtraction before it is returned.'
TECHNIQUE = TECHNIQUE + '; must-pass-through of a reduction between every raw product and the return; inclusive-comparison rule for conditional reductions'
