"""R10.8 — digit shifts in a power-of-two base are bit shifts scaled by log2(B).

For a base B = 2^k (k > 1) the float and rational code replaces a multiplication / division by B^n with a bit
shift.  The branch is selected by `B.is_power_of_two()` (the base is a const generic; `B == 2` has its own
arm), and *inside that branch* every shift amount has to carry the factor k = B.trailing_zeros(): a shift by the
digit count itself is right for B = 2 only and silently wrong for 4, 8, 16, 32, ...  The rule: in every block
dominated by the true edge of a primitive `is_power_of_two()` test, the amount of each shift (operator impls
on IBig / UBig, the shift helpers of float/src/utils.rs, primitive `<<` / `>>`) is data-dependent on a
primitive `trailing_zeros()` / `ilog2()` call.  Decided on the generic MIR, i.e. for every base at once."""
import re

from . import mir

CRATES = ("dashu_float", "dashu_ratio")
_POW2 = re.compile(r"^core::num::<impl u\d+>::is_power_of_two$")
_LOG = re.compile(r"^core::num::<impl u\d+>::(trailing_zeros|ilog2|ilog)$")
_SHIFT_LAST = ("shl", "shr", "shl_assign", "shr_assign", "shr_ref", "shl_ref", "split_bits", "split_bits_ref")


def _shift_amount(t, fr):
    cp = fr and (fr.get("rp") or fr["p"]) or ""
    last = cp.rsplit("::", 1)[-1]
    if last in _SHIFT_LAST and len(t["a"]) >= 2 and ("dashu_" in cp or "core::ops::bit::Sh" in cp):
        return cp, t["a"][1]
    return None


def rule(res, P, cfgname, rid="R10.8", floor=7):
    res.rule(rid, "inside a `B.is_power_of_two()` branch every shift amount depends on B.trailing_zeros() (a digit count is scaled "
                  "by log2(B) before it is used as a bit count)")
    n = 0
    for crate in CRATES:
        for f in P.fns(crate):
            body = f.get("mir")
            if not body:
                continue
            tests = [(bb, t) for bb, t, fr in mir.iter_calls(body) if fr and _POW2.match(fr.get("rp") or fr["p"])]
            if not tests:
                continue
            cfg = mir.cfg_of(body)
            logs = {t["d"]["l"] for bb, t, fr in mir.iter_calls(body) if fr and _LOG.match(fr.get("rp") or fr["p"])}
            k = 0
            for bb, t in tests:
                nxt = t.get("t")
                if nxt is None:
                    continue
                sw = body["bbs"][nxt]["t"]
                d = t["d"]["l"]
                if sw.get("k") != "switch" or (mir.op_place(sw["d"]) or {}).get("l") != d or [v for v, _ in sw["ts"]] != ["0"]:
                    continue        # the result is stored / combined: not a plain branch on the test
                true_bb = sw["o"]
                region = [b for b in cfg.reachable() if cfg.dominates(true_bb, b)]
                for b in region:
                    blk = body["bbs"][b]
                    sites = []
                    tt = blk["t"]
                    if tt.get("k") == "call":
                        sa = _shift_amount(tt, mir.callee(tt))
                        if sa:
                            sites.append((sa[0], sa[1], tt.get("sp", "")))
                    for s in blk["s"]:
                        if s["k"] == "as" and s["rv"]["k"] == "bin" and s["rv"]["op"] in ("Shl", "Shr", "ShlUnchecked", "ShrUnchecked"):
                            sites.append(("primitive " + s["rv"]["op"], s["rv"]["b"], s.get("sp", "")))
                    for cp, amt, sp in sites:
                        k += 1
                        n += 1
                        key = "%s|shift #%d in the power-of-two-base branch" % (f["p"], k)
                        al = (mir.op_place(amt) or {}).get("l")
                        if al is None:
                            res.fail(rid, cfgname, key, "%s: %s by a constant amount inside the power-of-two-base branch" % (f["p"], cp), mir.span_loc(sp))
                            continue
                        sl, _ = mir.backward_slice(body, [al])
                        if sl & logs:
                            res.ok(rid, cfgname, key, sample=dict(function=f["p"], shift=cp))
                        else:
                            res.fail(rid, cfgname, key, "%s: the amount of %s in the `is_power_of_two()` branch does not depend on B.trailing_zeros(): "
                                     "a digit count used as a bit count is right for base 2 only (wrong by the factor log2(B) for 4, 8, 16, ...)" % (f["p"], cp),
                                     mir.span_loc(sp))
    res.floor(rid, cfgname, n, floor, "shifts inside power-of-two-base branches")
